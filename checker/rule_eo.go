package main

// EO — the outputs the commands write themselves (outside the sequence writers) report their failures (C18).

import (
	"fmt"
	"go/ast"
	"go/token"
	"go/types"
	"path/filepath"
	"strings"

	"golang.org/x/tools/go/packages"
)

func init() {
	register(&Rule{
		ID: "EO", Props: []string{"C18"}, Min: 8,
		Doc: `results written outside the sequence writers obey the same discipline (obimatrix and obicount CSV, obisummary JSON/YAML, obiclean --save-ratio CSV, graph and consensus files): in cmd/obitools
and pkg/obitools (1) every encoding/csv Writer has, after its Flush(), a call of Error() whose result is tested in a branch that ends the program or returns it (Write errors are only kept there);
(2) in these packages no fmt.Print/Printf/Println (implicit os.Stdout), fmt.Fprint*(os.Stdout, …) or os.Stdout.Write* is a statement of its own — its error is tested — unless the branch exits
with a failure status right after (usage), it prints an error value, or (outside main) it stands in the branch of an error test (diagnostic); a template printed before os.Exit(0) is a result: obimultiplex
--template > /dev/full exited 0 with nothing written, and obifind dropped the errors of every line of its table; (3) a file obtained from os.Create/os.OpenFile: the open error ends the program or is returned (not merely printed); every write to it
(f.Write*, fmt.Fprint*(f, …)) has its error tested, or goes through a bufio.Writer whose Flush() error is tested; and its Close() error is tested (no bare or deferred Close()).`,
		Run: runEO,
	})
}

func runEO(c *Ctx, s *Sink) {
	endsProgram := func(info *types.Info, body *ast.BlockStmt) bool {
		ends := false
		ast.Inspect(body, func(m ast.Node) bool {
			switch x := m.(type) {
			case *ast.ReturnStmt:
				ends = true
			case *ast.CallExpr:
				if fn := callee(info, x); fn != nil && (strings.HasPrefix(fn.Name(), "Fatal") || strings.HasPrefix(fn.Name(), "Panic") || (fn.Pkg() != nil && fn.Pkg().Path() == "os" && fn.Name() == "Exit")) {
					ends = true
				}
				if id, ok := x.Fun.(*ast.Ident); ok && id.Name == "panic" {
					ends = true
				}
			}
			return true
		})
		return ends
	}
	// errTested: the call is the init of an if, or assigned to variables one of which (error typed) is tested != nil in a later if ending the program
	errTested := func(info *types.Info, fd *ast.FuncDecl, call *ast.CallExpr) bool {
		ok := false
		var stack []ast.Node
		ast.Inspect(fd.Body, func(n ast.Node) bool {
			if n == nil {
				stack = stack[:len(stack)-1]
				return true
			}
			stack = append(stack, n)
			if n != ast.Node(call) {
				return true
			}
			// find the assignment holding the call
			for k := len(stack) - 2; k >= 0; k-- {
				as, isAs := stack[k].(*ast.AssignStmt)
				if !isAs {
					if _, isExpr := stack[k].(ast.Expr); isExpr {
						continue
					}
					break
				}
				var errObj types.Object
				for _, l := range as.Lhs {
					if o := rootObj(info, l); o != nil && isErrorType(o.Type()) {
						errObj = o
					}
				}
				if errObj == nil {
					break
				}
				ast.Inspect(fd.Body, func(m ast.Node) bool {
					ifs, isIf := m.(*ast.IfStmt)
					if !isIf || ifs.End() < as.Pos() {
						return true
					}
					if b, isB := ast.Unparen(ifs.Cond).(*ast.BinaryExpr); isB && b.Op == token.NEQ && rootObj(info, b.X) == errObj && endsProgram(info, ifs.Body) {
						ok = true
					}
					return true
				})
				break
			}
			return true
		})
		return ok
	}
	c.EachFunc([]string{"cmd/obitools", "pkg/obitools"}, func(p *packages.Package, fd *ast.FuncDecl) {
		info := p.TypesInfo
		defs := collectDefsTuple(info, fd)
		fname := funcName(p, fd)
		// (1) csv writers
		ncsv := 0
		ast.Inspect(fd.Body, func(n ast.Node) bool {
			as, ok := n.(*ast.AssignStmt)
			if !ok || len(as.Rhs) != 1 || len(as.Lhs) != 1 {
				return true
			}
			call, ok := ast.Unparen(as.Rhs[0]).(*ast.CallExpr)
			if !ok {
				return true
			}
			f := callee(info, call)
			if f == nil || f.Pkg() == nil || f.Pkg().Path() != "encoding/csv" || f.Name() != "NewWriter" {
				return true
			}
			ncsv++
			key := fmt.Sprintf("%s:csv-writer#%d", fname, ncsv)
			w := rootObj(info, as.Lhs[0])
			var lastFlush token.Pos
			var errCall *ast.CallExpr
			ast.Inspect(fd.Body, func(m ast.Node) bool {
				if mc, ok := m.(*ast.CallExpr); ok {
					if sel, ok := ast.Unparen(mc.Fun).(*ast.SelectorExpr); ok && rootObj(info, sel.X) == w {
						switch sel.Sel.Name {
						case "Flush":
							lastFlush = mc.Pos()
						case "Error":
							errCall = mc
						}
					}
				}
				return true
			})
			switch {
			case lastFlush == token.NoPos:
				s.Fail(nil, key, as.Pos(), "the csv writer is never flushed")
			case errCall == nil || errCall.Pos() < lastFlush || !errTested(info, fd, errCall):
				s.Fail(nil, key, as.Pos(), "the results of Write are dropped and Error() is not tested after Flush(): a full device or a closed pipe loses or truncates the CSV result and the command exits 0 (obimatrix > /dev/full)")
			default:
				s.Pass(nil, key, as.Pos(), "Error() is tested after the last Flush()")
			}
			return true
		})
		// (2) prints of a main function
		file := filepath.Base(c.Fset.Position(fd.Pos()).Filename)
		isMain := fd.Name.Name == "main" && fd.Recv == nil && file == "main.go"
		{
			np := 0
			testsErr := func(cond ast.Expr) bool {
				found := false
				ast.Inspect(cond, func(m ast.Node) bool {
					if b, ok := m.(*ast.BinaryExpr); ok && b.Op == token.NEQ {
						if t := info.TypeOf(b.X); t != nil && isErrorType(t) {
							found = true
						}
					}
					return true
				})
				return found
			}
			var visit func(list []ast.Stmt, inErr bool)
			visit = func(list []ast.Stmt, inErr bool) {
				exits := false
				for _, st := range list {
					if es, ok := st.(*ast.ExprStmt); ok {
						if call, ok := es.X.(*ast.CallExpr); ok {
							if fn := callee(info, call); fn != nil && fn.Pkg() != nil && fn.Pkg().Path() == "os" && fn.Name() == "Exit" && len(call.Args) == 1 {
								// a failure exit: what was printed before is a usage or an error message, not a result
								if tv, ok := info.Types[call.Args[0]]; ok && tv.Value != nil && tv.Value.String() != "0" {
									exits = true
								}
							}
						}
					}
				}
				for _, st := range list {
					switch x := st.(type) {
					case *ast.ExprStmt:
						call, ok := x.X.(*ast.CallExpr)
						if !ok {
							continue
						}
						fn := callee(info, call)
						if fn == nil || fn.Pkg() == nil {
							continue
						}
						toStdout := false
						if fn.Pkg().Path() == "fmt" && (fn.Name() == "Print" || fn.Name() == "Printf" || fn.Name() == "Println") {
							toStdout = true
						}
						if fn.Pkg().Path() == "fmt" && strings.HasPrefix(fn.Name(), "Fprint") && len(call.Args) > 0 && isStdout(info, call.Args[0]) {
							toStdout = true
						}
						if sel, ok := ast.Unparen(call.Fun).(*ast.SelectorExpr); ok && isStdout(info, sel.X) && strings.HasPrefix(sel.Sel.Name, "Write") {
							toStdout = true
						}
						if !toStdout {
							continue
						}
						np++
						key := fmt.Sprintf("%s:stdout-print#%d", fname, np)
						printsErr := false
						for _, a := range call.Args {
							if t := info.TypeOf(a); t != nil && isErrorType(t) {
								printsErr = true
							}
						}
						switch {
						case exits:
							s.Pass(nil, key, call.Pos(), "printed in a branch that exits with a failure status right after (usage, diagnostic)")
						case !isMain && inErr:
							s.Pass(nil, key, call.Pos(), "printed in the branch of an error test (diagnostic)")
						case printsErr:
							s.Pass(nil, key, call.Pos(), "prints an error value (diagnostic)")
						default:
							s.Fail(nil, key, call.Pos(), "the result is printed on stdout and the error of "+types.ExprString(call.Fun)+" is discarded: with a full device or a closed pipe the command exits 0 without its output")
						}
					case *ast.IfStmt:
						if as, ok := x.Init.(*ast.AssignStmt); ok && len(as.Rhs) == 1 {
							if call, ok := as.Rhs[0].(*ast.CallExpr); ok {
								if fn := callee(info, call); fn != nil && fn.Pkg() != nil && fn.Pkg().Path() == "fmt" && strings.HasPrefix(fn.Name(), "Print") {
									np++
									key := fmt.Sprintf("%s:stdout-print#%d", fname, np)
									if endsProgram(info, x.Body) {
										s.Pass(nil, key, call.Pos(), "the error of the print is tested and ends the program")
									} else {
										s.Fail(nil, key, call.Pos(), "the error of the print is tested but the program goes on")
									}
								}
							}
						}
						visit(x.Body.List, inErr || testsErr(x.Cond))
						if eb, ok := x.Else.(*ast.BlockStmt); ok {
							visit(eb.List, inErr)
						}
					case *ast.BlockStmt:
						visit(x.List, inErr)
					case *ast.ForStmt:
						visit(x.Body.List, inErr)
					case *ast.RangeStmt:
						visit(x.Body.List, inErr)
					case *ast.SwitchStmt:
						for _, cl := range x.Body.List {
							visit(cl.(*ast.CaseClause).Body, inErr)
						}
					}
				}
			}
			visit(fd.Body.List, false)
		}
		// (3) files created by the tools
		nf := 0
		ast.Inspect(fd.Body, func(n ast.Node) bool {
			as, ok := n.(*ast.AssignStmt)
			if !ok || len(as.Rhs) != 1 || len(as.Lhs) != 2 {
				return true
			}
			call, ok := ast.Unparen(as.Rhs[0]).(*ast.CallExpr)
			if !ok {
				return true
			}
			f := callee(info, call)
			if f == nil || f.Pkg() == nil || f.Pkg().Path() != "os" || (f.Name() != "Create" && f.Name() != "OpenFile") {
				return true
			}
			fobj := rootObj(info, as.Lhs[0])
			if fobj == nil {
				return true
			}
			// only files written in this function (a file handed to a sequence writer is that writer's business)
			var bad []string
			writes, closes, closeOK := 0, 0, false
			// bufio writers built on the file
			buffered := map[types.Object]bool{}
			for o, ds := range defs {
				for _, d := range ds {
					if bc, ok := ast.Unparen(d).(*ast.CallExpr); ok {
						if bf := callee(info, bc); bf != nil && bf.Pkg() != nil && bf.Pkg().Path() == "bufio" && strings.HasPrefix(bf.Name(), "NewWriter") && len(bc.Args) > 0 && rootObj(info, bc.Args[0]) == fobj {
							buffered[o] = true
						}
					}
				}
			}
			var stack []ast.Node
			ast.Inspect(fd.Body, func(m ast.Node) bool {
				if m == nil {
					stack = stack[:len(stack)-1]
					return true
				}
				stack = append(stack, m)
				mc, ok := m.(*ast.CallExpr)
				if !ok {
					return true
				}
				asStmt := false
				deferred := false
				if len(stack) >= 2 {
					switch stack[len(stack)-2].(type) {
					case *ast.ExprStmt:
						asStmt = true
					case *ast.DeferStmt:
						deferred = true
					}
				}
				if sel, ok := ast.Unparen(mc.Fun).(*ast.SelectorExpr); ok {
					recv := rootObj(info, sel.X)
					if recv == fobj && strings.HasPrefix(sel.Sel.Name, "Write") {
						writes++
						if asStmt {
							bad = append(bad, c.Pos(mc.Pos())+": the error of "+types.ExprString(mc.Fun)+" is discarded")
						}
					}
					if recv == fobj && sel.Sel.Name == "Close" {
						closes++
						if !asStmt && !deferred {
							closeOK = true
						}
					}
					if buffered[recv] && sel.Sel.Name == "Flush" {
						if asStmt || deferred {
							bad = append(bad, c.Pos(mc.Pos())+": the error of the buffered writer's Flush() is discarded")
						}
					}
				}
				if fn := callee(info, mc); fn != nil && fn.Pkg() != nil && fn.Pkg().Path() == "fmt" && strings.HasPrefix(fn.Name(), "Fprint") && len(mc.Args) > 0 {
					target := rootObj(info, mc.Args[0])
					if target == fobj {
						writes++
						if asStmt {
							bad = append(bad, c.Pos(mc.Pos())+": the error of "+types.ExprString(mc.Fun)+" on the file is discarded")
						}
					}
					if buffered[target] {
						writes++
					}
				}
				return true
			})
			if writes == 0 {
				return true
			}
			nf++
			key := fmt.Sprintf("%s:file#%d", fname, nf)
			// the open error
			errObj := rootObj(info, as.Lhs[1])
			openOK := false
			ast.Inspect(fd.Body, func(m ast.Node) bool {
				if ifs, ok := m.(*ast.IfStmt); ok && ifs.Pos() > as.Pos() {
					if b, ok := ast.Unparen(ifs.Cond).(*ast.BinaryExpr); ok && b.Op == token.NEQ && rootObj(info, b.X) == errObj && endsProgram(info, ifs.Body) {
						openOK = true
					}
				}
				return true
			})
			if !openOK {
				bad = append(bad, c.Pos(as.Pos())+": the error of "+f.Name()+" does not end the program (it is printed, and the writes go to a nil file)")
			}
			if closes == 0 || !closeOK {
				bad = append(bad, "the error of Close() is never tested")
			}
			if len(bad) > 0 {
				s.Fail(nil, key, as.Pos(), "a result file is written without looking at the errors: "+strings.Join(bad, "; ")+" — on a full device the file is lost or truncated and the command exits 0")
			} else {
				s.Pass(nil, key, as.Pos(), fmt.Sprintf("open, %d write(s) and Close() all have their error tested (or go through a buffered writer whose Flush is tested)", writes))
			}
			return true
		})
	})
}

func isStdout(info *types.Info, e ast.Expr) bool {
	sel, ok := ast.Unparen(e).(*ast.SelectorExpr)
	if !ok || sel.Sel.Name != "Stdout" {
		return false
	}
	v, ok := info.ObjectOf(sel.Sel).(*types.Var)
	return ok && v.Pkg() != nil && v.Pkg().Path() == "os"
}
