package main

// HP — a node whose weight improves is looked at again (C19).

import (
	"fmt"
	"go/ast"
	"go/token"
	"go/types"

	"golang.org/x/tools/go/packages"
)

func init() {
	register(&Rule{
		ID: "HP", Props: []string{"C19"}, Min: 1,
		Doc: `"the path returned is the heaviest one": HaviestPath is a label-correcting search — its queue is ordered by k-mer code, not topologically, so the weight of a node may improve after the node
was expanded. In pkg/obikmer, in a worklist loop that skips the nodes marked in a map (if visited[n] { continue }), every block that improves the weight of a node (an assignment to an element of
a map under a comparison reading the same element) and pushes that node clears its mark (visited[n] = false) as well: marked and pushed, the node is popped and skipped, its better weight never
reaches its successors, and the path returned is a walk from a source but not the heaviest (176 of 1664 random acyclic graphs).`,
		Run: func(c *Ctx, s *Sink) {
			c.EachFunc([]string{"pkg/obikmer"}, func(p *packages.Package, fd *ast.FuncDecl) {
				info := p.TypesInfo
				done := false
				ast.Inspect(fd.Body, func(nd ast.Node) bool {
					loop, ok := nd.(*ast.ForStmt)
					if !ok || done {
						return true
					}
					// the mark: if M[x] { continue }
					var mark types.Object
					for _, st := range loop.Body.List {
						if is, ok := st.(*ast.IfStmt); ok && len(is.Body.List) == 1 {
							if br, ok := is.Body.List[0].(*ast.BranchStmt); ok && br.Tok == token.CONTINUE {
								if ix, ok := ast.Unparen(is.Cond).(*ast.IndexExpr); ok {
									if _, isMap := info.TypeOf(ix.X).Underlying().(*types.Map); isMap {
										mark = rootObj(info, ix.X)
									}
								}
							}
						}
					}
					if mark == nil {
						return true
					}
					done = true
					n := 0
					// the relaxation block may have been moved into a function literal declared beside the loop
					ast.Inspect(fd.Body, func(m ast.Node) bool {
						is, ok := m.(*ast.IfStmt)
						if !ok {
							return true
						}
						// a comparison reading D[k]
						var dmap, knode types.Object
						var condAndInit ast.Node = is.Cond
						if is.Init != nil {
							condAndInit = is // the map may be read by the init statement: d, seen := D[k]
						}
						ast.Inspect(condAndInit, func(q ast.Node) bool {
							if q == ast.Node(is.Body) || (is.Else != nil && q == is.Else) {
								return false
							}
							if ix, ok := q.(*ast.IndexExpr); ok {
								if _, isMap := info.TypeOf(ix.X).Underlying().(*types.Map); isMap && rootObj(info, ix.X) != mark {
									dmap, knode = rootObj(info, ix.X), rootObj(info, ix.Index)
								}
							}
							return true
						})
						if dmap == nil || knode == nil {
							return true
						}
						improves, pushes, clears := false, false, false
						for _, st := range is.Body.List {
							switch y := st.(type) {
							case *ast.AssignStmt:
								for i, l := range y.Lhs {
									ix, ok := ast.Unparen(l).(*ast.IndexExpr)
									if !ok || rootObj(info, ix.Index) != knode {
										continue
									}
									if rootObj(info, ix.X) == dmap {
										improves = true
									}
									if rootObj(info, ix.X) == mark && i < len(y.Rhs) {
										if id, ok := ast.Unparen(y.Rhs[i]).(*ast.Ident); ok && id.Name == "false" {
											clears = true
										}
									}
								}
							case *ast.ExprStmt:
								if call, ok := y.X.(*ast.CallExpr); ok && fullName(callee(info, call)) == "container/heap.Push" && len(call.Args) == 2 && rootObj(info, call.Args[1]) == knode {
									pushes = true
								}
							}
						}
						if !improves || !pushes {
							return true
						}
						n++
						key := fmt.Sprintf("%s:relaxation#%d:improved-node-unmarked", funcName(p, fd), n)
						if clears {
							s.Pass(nil, key, is.Pos(), "the node whose weight improves is unmarked before it is pushed")
						} else {
							s.Fail(nil, key, is.Pos(), "a node whose weight improves is pushed but stays marked: it is popped and skipped, its successors keep the weights computed from its former one — the consensus follows the wrong branch of a bubble or is truncated (the path returned is a walk from a source, not the heaviest)")
						}
						return true
					})
					return true
				})
			})
		},
	})
}

func init() {
	register(&Rule{
		ID: "CY", Props: []string{"C19"}, Min: 1,
		Doc: `"a cycle is always detected (no consensus is built from a cyclic graph)": a ring of k-mers has no source. In pkg/obikmer.(*DeBruijnGraph).HasCycle the loop that starts the depth-first
searches ranges over the node table of the receiver itself (a field of map type), or over a method of the receiver that ranges over that field and keeps every key (no test in its loop): started
from Heads() only, a graph that is one cycle — a tandem repeat longer than the read — is declared acyclic and HaviestPath walks it.`,
		Run: func(c *Ctx, s *Sink) {
			fd, p := c.FindFunc("pkg/obikmer", "(*DeBruijnGraph).HasCycle")
			key := "pkg/obikmer.(*DeBruijnGraph).HasCycle:search-started-from-every-node"
			if fd == nil {
				s.Undecided(nil, key, 0, "function not found")
				return
			}
			info := p.TypesInfo
			recv := info.ObjectOf(fd.Recv.List[0].Names[0])
			isNodeTable := func(e ast.Expr) bool {
				sel, ok := ast.Unparen(e).(*ast.SelectorExpr)
				if !ok || rootObj(info, sel.X) != recv {
					return false
				}
				_, isMap := info.TypeOf(sel).Underlying().(*types.Map)
				return isMap
			}
			// the recursive search: a local function value calling itself
			var dfs types.Object
			ast.Inspect(fd.Body, func(n ast.Node) bool {
				if as, ok := n.(*ast.AssignStmt); ok && len(as.Lhs) == 1 && len(as.Rhs) == 1 {
					if lit, ok := as.Rhs[0].(*ast.FuncLit); ok {
						o := rootObj(info, as.Lhs[0])
						self := false
						ast.Inspect(lit.Body, func(m ast.Node) bool {
							if call, ok := m.(*ast.CallExpr); ok && rootObj(info, call.Fun) == o {
								self = true
							}
							return true
						})
						if self {
							dfs = o
						}
					}
				}
				return true
			})
			if dfs == nil {
				s.Undecided(nil, key, fd.Pos(), "no recursive search (a function value calling itself) found")
				return
			}
			var starter *ast.RangeStmt
			for _, st := range fd.Body.List {
				if rs, ok := st.(*ast.RangeStmt); ok {
					calls := false
					ast.Inspect(rs.Body, func(m ast.Node) bool {
						if call, ok := m.(*ast.CallExpr); ok && rootObj(info, call.Fun) == dfs {
							calls = true
						}
						return true
					})
					if calls {
						starter = rs
					}
				}
			}
			if starter == nil {
				s.Undecided(nil, key, fd.Pos(), "no loop starting the searches found")
				return
			}
			ok := isNodeTable(starter.X)
			if call, isCall := ast.Unparen(starter.X).(*ast.CallExpr); isCall && !ok {
				if fn := callee(info, call); fn != nil {
					if d, dp := c.DeclOf(fn); d != nil && d.Body != nil && d.Recv != nil {
						di := dp.TypesInfo
						r2 := di.ObjectOf(d.Recv.List[0].Names[0])
						ast.Inspect(d.Body, func(m ast.Node) bool {
							if rs, isR := m.(*ast.RangeStmt); isR {
								if sel, isS := ast.Unparen(rs.X).(*ast.SelectorExpr); isS && rootObj(di, sel.X) == r2 {
									if _, isMap := di.TypeOf(sel).Underlying().(*types.Map); isMap {
										hasIf := false
										ast.Inspect(rs.Body, func(q ast.Node) bool {
											if _, isIf := q.(*ast.IfStmt); isIf {
												hasIf = true
											}
											return true
										})
										if !hasIf {
											ok = true
										}
									}
								}
							}
							return true
						})
					}
				}
			}
			if ok {
				s.Pass(nil, key, starter.Pos(), "the searches start from every node of the table")
			} else {
				s.Fail(nil, key, starter.Pos(), "the depth-first searches start from "+types.ExprString(starter.X)+", not from every node: a component that is one ring has no source — the graph of a read whose first and last k-1 symbols are the same is declared acyclic")
			}
		},
	})
}


func init() {
	register(&Rule{
		ID: "HW", Props: []string{"C19"}, Min: 3,
		Doc: `"no path is returned exactly when the graph has a cycle": an acyclic graph has a heaviest path whatever its weights. In (*DeBruijnGraph).HaviestPath (1) the running maximum starts below every
weight (a negative constant): started at 0, a graph whose k-mers all weigh 0 — records carrying count 0 — never replaces the placeholder node 0, the path is rebuilt from it and the function
panics "Cycle detected" on an acyclic graph; (2) the relaxation tells a node that was never reached from a node reached with weight 0: the map of the distances is read with the comma-ok form
(or every node is given a distance beforehand); (3) a graph without any node returns before the search; (4) every update of the running maximum is also taken at equal weight for a longer walk (weight == max && steps > maxSteps): with the weight alone, on k-mers that all weigh 0 the path stops at its first node — the consensus of reads carrying count:0 was their first k-mer.`,
		Run: func(c *Ctx, s *Sink) {
			fd, p := c.FindFunc("pkg/obikmer", "(*DeBruijnGraph).HaviestPath")
			if fd == nil {
				s.Undecided(nil, "pkg/obikmer.(*DeBruijnGraph).HaviestPath", 0, "function not found")
				return
			}
			info := p.TypesInfo
			// the running maximum: an int variable compared with > in a condition whose body assigns it
			var maxVar types.Object
			ast.Inspect(fd.Body, func(n ast.Node) bool {
				is, ok := n.(*ast.IfStmt)
				if !ok {
					return true
				}
				// the strict comparison, alone or as the first alternative of the condition
				for _, dj := range disjunctsOf(is.Cond) {
					b, ok := ast.Unparen(dj).(*ast.BinaryExpr)
					if !ok || b.Op != token.GTR {
						continue
					}
					o := rootObj(info, b.Y)
					if o == nil {
						continue
					}
					if _, isIdent := ast.Unparen(b.Y).(*ast.Ident); !isIdent {
						continue
					}
					for _, st := range is.Body.List {
						if as, ok := st.(*ast.AssignStmt); ok && len(as.Lhs) == 1 && rootObj(info, as.Lhs[0]) == o && maxVar == nil {
							maxVar = o
						}
					}
				}
				return true
			})
			// (4) among equal weights the longest walk: every update of the maximum is also taken on equality with a second, strictly larger, quantity
			key4 := "pkg/obikmer.(*DeBruijnGraph).HaviestPath:ties-broken-on-the-length-of-the-walk"
			if maxVar != nil {
				updates, tied := 0, 0
				ast.Inspect(fd.Body, func(n ast.Node) bool {
					is, ok := n.(*ast.IfStmt)
					if !ok {
						return true
					}
					assigns := false
					for _, st := range is.Body.List {
						if as, ok := st.(*ast.AssignStmt); ok && len(as.Lhs) == 1 && rootObj(info, as.Lhs[0]) == maxVar {
							assigns = true
						}
					}
					if !assigns {
						return true
					}
					updates++
					for _, dj := range disjunctsOf(is.Cond) {
						eq, gt := false, false
						for _, cj := range conjuncts(dj) {
							if b, ok := ast.Unparen(cj).(*ast.BinaryExpr); ok {
								if b.Op == token.EQL && (rootObj(info, b.X) == maxVar || rootObj(info, b.Y) == maxVar) {
									eq = true
								}
								if (b.Op == token.GTR || b.Op == token.LSS) && rootObj(info, b.X) != maxVar && rootObj(info, b.Y) != maxVar {
									gt = true
								}
							}
						}
						if eq && gt {
							tied++
						}
					}
					return true
				})
				switch {
				case updates == 0:
					s.Undecided(nil, key4, fd.Pos(), "no update of the running maximum found")
				case tied < updates:
					s.Fail(nil, key4, fd.Pos(), fmt.Sprintf("%d of the %d updates of the running maximum only take a strictly larger weight: on k-mers that weigh 0 (records carrying count:0 — a legal value) every walk weighs 0 and the path stops at its first node — the consensus of seven 60 bp reads is the 7 bases of the first k-mer, where a single sequence without repeated k-mer is to be returned unchanged; a weightless tail is dropped while a weightless head is kept", updates-tied, updates))
				default:
					s.Pass(nil, key4, fd.Pos(), fmt.Sprintf("%d updates, each also taken at equal weight for a longer walk", updates))
				}
			}
			key1 := "pkg/obikmer.(*DeBruijnGraph).HaviestPath:running-maximum-starts-below-every-weight"
			if maxVar == nil {
				s.Undecided(nil, key1, fd.Pos(), "no running maximum found")
			} else {
				init := int64(0)
				found := false
				ast.Inspect(fd.Body, func(n ast.Node) bool {
					if as, ok := n.(*ast.AssignStmt); ok && as.Tok == token.DEFINE && len(as.Lhs) == 1 && info.ObjectOf(as.Lhs[0].(*ast.Ident)) == maxVar {
						if v, isC := constInt(info, as.Rhs[0]); isC {
							init, found = v, true
						}
					}
					return true
				})
				switch {
				case !found:
					s.Undecided(nil, key1, fd.Pos(), "the initial value of the running maximum is not a constant")
				case init < 0:
					s.Pass(nil, key1, fd.Pos(), "the running maximum starts at a negative value")
				default:
					s.Fail(nil, key1, fd.Pos(), "the running maximum starts at 0 and is only replaced by a strictly larger weight: for a graph whose k-mers all weigh 0 (records carrying count:0) the placeholder node 0 stays the heaviest, the path is rebuilt from it and HaviestPath panics \"Cycle detected\" although HasCycle() is false — obiconsensus dies on such records")
				}
			}
			key2 := "pkg/obikmer.(*DeBruijnGraph).HaviestPath:unreached-is-not-distance-0"
			commaOK := false
			ast.Inspect(fd.Body, func(n ast.Node) bool {
				if as, ok := n.(*ast.AssignStmt); ok && len(as.Lhs) == 2 && len(as.Rhs) == 1 {
					if ix, ok := ast.Unparen(as.Rhs[0]).(*ast.IndexExpr); ok {
						if mt, isMap := info.TypeOf(ix.X).Underlying().(*types.Map); isMap {
							if b, isB := mt.Elem().Underlying().(*types.Basic); isB && b.Info()&types.IsInteger != 0 {
								commaOK = true
							}
						}
					}
				}
				return true
			})
			if commaOK {
				s.Pass(nil, key2, fd.Pos(), "the distances are read with the comma-ok form: a node never reached is not a node reached with weight 0")
			} else {
				s.Fail(nil, key2, fd.Pos(), "a missing distance reads as 0: the successor of a node reached with weight 0 is never relaxed when its own weight is 0 — a graph mixing zero and positive counts is searched incompletely")
			}
		},
	})
}

func init() {
	register(&Rule{
		ID: "SLB", Props: []string{"C19"}, Min: 1,
		Doc: `"no path is returned exactly when the graph has a cycle" — and never a crash: in pkg/obikmer, a slice expression x[a:b] whose two bounds are variables each moved by a loop of the function (the trimming
of the low-coverage ends of the consensus path: from grows from the left, to shrinks from the right) is dominated by a test of the two bounds against each other that leaves the function: a threshold above
every weight of the path (--low-coverage 1.5) makes from = len(path) and to = 0 and path[from:to] panics "slice bounds out of range [54:0]".`,
		Run: func(c *Ctx, s *Sink) {
			c.EachFunc([]string{"pkg/obikmer"}, func(p *packages.Package, fd *ast.FuncDecl) {
				info := p.TypesInfo
				// variables assigned inside a loop
				inLoop := map[types.Object]bool{}
				ast.Inspect(fd.Body, func(n ast.Node) bool {
					var body *ast.BlockStmt
					switch x := n.(type) {
					case *ast.ForStmt:
						body = x.Body
					case *ast.RangeStmt:
						body = x.Body
					}
					if body == nil {
						return true
					}
					ast.Inspect(body, func(m ast.Node) bool {
						if as, ok := m.(*ast.AssignStmt); ok && as.Tok == token.ASSIGN {
							for _, l := range as.Lhs {
								if id, ok := l.(*ast.Ident); ok {
									inLoop[info.ObjectOf(id)] = true
								}
							}
						}
						return true
					})
					return true
				})
				n := 0
				ast.Inspect(fd.Body, func(nd ast.Node) bool {
					se, ok := nd.(*ast.SliceExpr)
					if !ok || se.Low == nil || se.High == nil {
						return true
					}
					lo, ok1 := ast.Unparen(se.Low).(*ast.Ident)
					hi, ok2 := ast.Unparen(se.High).(*ast.Ident)
					if !ok1 || !ok2 {
						return true
					}
					lob, hib := info.ObjectOf(lo), info.ObjectOf(hi)
					if !inLoop[lob] || !inLoop[hib] {
						return true
					}
					n++
					key := fmt.Sprintf("%s:slice#%d:bounds-compared-before", funcName(p, fd), n)
					guarded := false
					ast.Inspect(fd.Body, func(m ast.Node) bool {
						is, ok := m.(*ast.IfStmt)
						if !ok || is.Pos() > se.Pos() || !leavesOrFatal(info, is.Body) {
							return true
						}
						hasLo, hasHi := false, false
						ast.Inspect(is.Cond, func(q ast.Node) bool {
							if id, ok := q.(*ast.Ident); ok {
								if info.ObjectOf(id) == lob {
									hasLo = true
								}
								if info.ObjectOf(id) == hib {
									hasHi = true
								}
							}
							return true
						})
						if hasLo && hasHi {
							guarded = true
						}
						return true
					})
					if guarded {
						s.Pass(nil, key, se.Pos(), "the two bounds are compared, and the function left, before the slice is taken")
					} else {
						s.Fail(nil, key, se.Pos(), "the bounds "+lo.Name+" and "+hi.Name+" are each moved by a loop and the slice is taken without comparing them: when the two loops cross ("+lo.Name+" = len, "+hi.Name+" = 0 — a coverage threshold above every weight of the path, --low-coverage 1.5) the expression panics, obiconsensus dies with a stack trace")
					}
					return true
				})
			})
		},
	})
}
