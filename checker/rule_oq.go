package main

// OQ — a reader option is honoured on every path (C01).

import (
	"fmt"
	"go/ast"
	"go/token"
	"go/types"
	"sort"
	"strings"

	"golang.org/x/tools/go/packages"
)

func init() {
	register(&Rule{
		ID: "OQ", Props: []string{"C01"}, Min: 1,
		Doc: `what an option switches off is switched off wherever the record ends: in pkg/obiformats, when a function calls a module function F under 'if P' for a boolean parameter P of that
function (or of the enclosing one), every other call of F (F returning nothing: a store into the record) in the same function is under P too, or in the else branch of a test of P (contradiction rule: one path checks the option, another does not). The FASTQ parser stores the
qualities of a record under with_quality in its state machine; doing it unconditionally in the end-of-chunk epilogue gives qualities to the last record of every chunk only — which records
carry them then depends on where the read buffer cut the file.`,
		Run: runOQ,
	})
}

func runOQ(c *Ctx, s *Sink) {
	c.EachFunc([]string{"pkg/obiformats"}, func(p *packages.Package, fd *ast.FuncDecl) {
		info := p.TypesInfo
		// boolean parameters of the declaration and of its literals
		params := map[types.Object]bool{}
		addParams := func(ft *ast.FuncType) {
			for _, id := range flattenParams(ft.Params) {
				if id == nil {
					continue
				}
				if o := info.ObjectOf(id); o != nil {
					if b, ok := o.Type().Underlying().(*types.Basic); ok && b.Kind() == types.Bool {
						params[o] = true
					}
				}
			}
		}
		addParams(fd.Type)
		ast.Inspect(fd.Body, func(n ast.Node) bool {
			if l, ok := n.(*ast.FuncLit); ok {
				addParams(l.Type)
			}
			return true
		})
		if len(params) == 0 {
			return
		}
		type site struct {
			pos     token.Pos
			guards  map[types.Object]bool
		}
		calls := map[*types.Func][]site{}
		var stack []ast.Node
		ast.Inspect(fd.Body, func(n ast.Node) bool {
			if n == nil {
				stack = stack[:len(stack)-1]
				return true
			}
			stack = append(stack, n)
			call, ok := n.(*ast.CallExpr)
			if !ok {
				return true
			}
			f := callee(info, call)
			if f == nil || f.Pkg() == nil || !strings.HasPrefix(f.Pkg().Path(), modPath) {
				return true
			}
			// only effect-only functions (no result): what the option switches on or off is a store into the record
			if sig, ok := f.Type().(*types.Signature); !ok || sig.Results().Len() != 0 {
				return true
			}
			g := map[types.Object]bool{}
			for k := len(stack) - 2; k >= 0; k-- {
				ifs, ok := stack[k].(*ast.IfStmt)
				if !ok || k+1 >= len(stack) {
					continue
				}
				if ifs.Else != nil && stack[k+1] == ast.Node(ifs.Else) {
					// the explicit alternative of a test of the option is a decision on the option too
					for _, cj := range conjuncts(ifs.Cond) {
						if id, ok := ast.Unparen(cj).(*ast.Ident); ok && params[info.ObjectOf(id)] {
							g[info.ObjectOf(id)] = true
						}
					}
					continue
				}
				if stack[k+1] != ast.Node(ifs.Body) {
					continue
				}
				for _, cj := range conjuncts(ifs.Cond) {
					if id, ok := ast.Unparen(cj).(*ast.Ident); ok && params[info.ObjectOf(id)] {
						g[info.ObjectOf(id)] = true
					}
				}
			}
			calls[f] = append(calls[f], site{call.Pos(), g})
			return true
		})
		var fs []*types.Func
		for f := range calls {
			fs = append(fs, f)
		}
		sort.Slice(fs, func(i, j int) bool { return fs[i].FullName() < fs[j].FullName() })
		for _, f := range fs {
			sites := calls[f]
			for prm := range params {
				guarded, bare := 0, []string{}
				for _, st := range sites {
					if st.guards[prm] {
						guarded++
					} else {
						bare = append(bare, c.Pos(st.pos))
					}
				}
				if guarded == 0 {
					continue
				}
				key := fmt.Sprintf("%s:%s-under-%s", funcName(p, fd), f.Name(), prm.Name())
				if len(bare) > 0 {
					s.Fail(nil, key, sites[0].pos, fmt.Sprintf("%s is called under 'if %s' at %d place(s) and unconditionally at %s: the option is not honoured there — for the FASTQ parser the last record of every chunk receives qualities the others do not, so the content of a record depends on where the read buffer cut the file", f.Name(), prm.Name(), guarded, strings.Join(bare, ", ")))
				} else {
					s.Pass(nil, key, sites[0].pos, fmt.Sprintf("every call of %s (%d) is under %s", f.Name(), guarded, prm.Name()))
				}
			}
		}
	})
}
