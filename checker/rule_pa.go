package main

// PA — parallel tables stay aligned (C15).
//
// obitag hands the reference sequences, their 4-mer tables and their taxa to
// the search as parallel tables: element k of each describes the same
// reference.  Where such tables are filled or compacted in one loop, every
// store into a member of the group must use the same index, and when one
// member is truncated after the loop the other slices are truncated to the
// same length.

import (
	"fmt"
	"go/ast"
	"go/types"
	"sort"
	"strings"

	"golang.org/x/tools/go/packages"
)

func init() {
	register(&Rule{
		ID: "PA", Props: []string{"C15"}, Min: 1,
		Doc: `parallel tables: local slices/maps that are passed together to one call (references, refcounts, taxa → IdentifySeqWorker / FindClosests / IndexSequence) and are stored into by
one loop are stored at the same index expression in that loop, and slices of the group truncated after it are truncated to the same bound; otherwise element k of one table
describes another reference than element k of the others and the k-mer prefilter orders and prunes candidates with the wrong counts.`,
		Run: runPA,
	})
}

func runPA(c *Ctx, s *Sink) {
	c.EachFunc([]string{"pkg/obitools/obitag", "pkg/obitools/obitag2", "pkg/obitools/obirefidx", "pkg/obitools/obilandmark"}, func(p *packages.Package, fd *ast.FuncDecl) {
		info := p.TypesInfo
		fname := funcName(p, fd)
		isTable := func(o types.Object) bool {
			v, ok := o.(*types.Var)
			if !ok || v.IsField() {
				return false
			}
			switch v.Type().Underlying().(type) {
			case *types.Slice, *types.Map:
				return true
			}
			return false
		}
		// groups: identifiers passed together to one call
		var groups [][]types.Object
		ast.Inspect(fd.Body, func(n ast.Node) bool {
			call, ok := n.(*ast.CallExpr)
			if !ok {
				return true
			}
			var g []types.Object
			for _, a := range call.Args {
				e := ast.Unparen(a)
				if u, ok := e.(*ast.UnaryExpr); ok {
					e = ast.Unparen(u.X)
				}
				if id, ok := e.(*ast.Ident); ok {
					if o := info.ObjectOf(id); o != nil && isTable(o) {
						g = append(g, o)
					}
				}
			}
			if len(g) >= 2 {
				groups = append(groups, g)
			}
			return true
		})
		if len(groups) == 0 {
			return
		}
		inGroup := func(a, b types.Object) bool {
			for _, g := range groups {
				ha, hb := false, false
				for _, o := range g {
					if o == a {
						ha = true
					}
					if o == b {
						hb = true
					}
				}
				if ha && hb {
					return true
				}
			}
			return false
		}
		nloop := 0
		ast.Inspect(fd.Body, func(n ast.Node) bool {
			var body *ast.BlockStmt
			switch x := n.(type) {
			case *ast.ForStmt:
				body = x.Body
			case *ast.RangeStmt:
				body = x.Body
			default:
				return true
			}
			type store struct {
				o   types.Object
				idx string
				pos ast.Node
			}
			var stores []store
			ast.Inspect(body, func(m ast.Node) bool {
				if _, ok := m.(*ast.FuncLit); ok {
					return false
				}
				if as, ok := m.(*ast.AssignStmt); ok {
					for _, l := range as.Lhs {
						if ix, ok := ast.Unparen(l).(*ast.IndexExpr); ok {
							if id, ok := ast.Unparen(ix.X).(*ast.Ident); ok {
								if o := info.ObjectOf(id); o != nil && isTable(o) {
									stores = append(stores, store{o, types.ExprString(ix.Index), m})
								}
							}
						}
					}
				}
				return true
			})
			// pairs of stores to different members of one group
			members := map[types.Object]string{}
			var bad []string
			for _, a := range stores {
				for _, b := range stores {
					if a.o != b.o && inGroup(a.o, b.o) {
						members[a.o] = a.idx
						if a.idx != b.idx && a.o.Pos() < b.o.Pos() {
							bad = append(bad, fmt.Sprintf("%s[%s] and %s[%s]", a.o.Name(), a.idx, b.o.Name(), b.idx))
						}
					}
				}
			}
			if len(members) < 2 {
				return true
			}
			nloop++
			var names []string
			for o := range members {
				names = append(names, o.Name())
			}
			sort.Strings(names)
			key := fmt.Sprintf("%s:parallel:%s", fname, strings.Join(names, ","))
			// truncations after the loop
			trunc := map[types.Object]string{}
			ast.Inspect(fd.Body, func(m ast.Node) bool {
				as, ok := m.(*ast.AssignStmt)
				if !ok || as.Pos() < n.End() || len(as.Lhs) != 1 || len(as.Rhs) != 1 {
					return true
				}
				lid, ok := as.Lhs[0].(*ast.Ident)
				if !ok {
					return true
				}
				sl, ok := ast.Unparen(as.Rhs[0]).(*ast.SliceExpr)
				if !ok || sl.High == nil {
					return true
				}
				if rid, ok := ast.Unparen(sl.X).(*ast.Ident); ok && info.ObjectOf(rid) == info.ObjectOf(lid) {
					if _, in := members[info.ObjectOf(lid)]; in {
						trunc[info.ObjectOf(lid)] = types.ExprString(sl.High)
					}
				}
				return true
			})
			if len(trunc) > 0 {
				bound := ""
				for o := range members {
					if _, isSlice := o.Type().Underlying().(*types.Slice); !isSlice {
						continue
					}
					b, ok := trunc[o]
					switch {
					case !ok:
						bad = append(bad, o.Name()+" is not truncated while other tables of the group are")
					case bound == "":
						bound = b
					case b != bound:
						bad = append(bad, fmt.Sprintf("%s is truncated to %s, another table to %s", o.Name(), b, bound))
					}
				}
			}
			sort.Strings(bad)
			if len(bad) > 0 {
				s.Fail(nil, key, n.Pos(), "tables handed together to the search are filled at different positions: "+strings.Join(bad, "; ")+": once an element is skipped, entry k of one table describes another reference than entry k of the others")
			} else {
				s.Pass(nil, key, n.Pos(), fmt.Sprintf("%d tables stored at one index, truncated alike", len(members)))
			}
			return true
		})
	})
}
