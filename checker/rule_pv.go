package main

// PV — package-level state written by library code that worker goroutines run
// must be synchronised (C05).

import (
	"fmt"
	"go/ast"
	"go/token"
	"go/types"

	"golang.org/x/tools/go/packages"
)

func init() {
	register(&Rule{
		ID: "PV", Props: []string{"C05"}, Min: 3,
		Doc: `package-level state of the record-processing libraries is written under synchronisation: in pkg/obiseq, pkg/obiiter, pkg/obialign, pkg/obikmer and pkg/obiapat
every store (assignment, ++, append-assignment, element store) to a package-level variable outside init() must be inside a Lock…Unlock region or be a sync/atomic call —
these functions are called from the parallel workers of every command, so an unsynchronised store is a lost update whose effect (e.g. the shared default quality vector)
depends on scheduling. Stores in option setters and reviewed debug counters are tabled.`,
		Run: runPV,
	})
}

var pvExceptions = map[string]string{
}

func runPV(c *Ctx, s *Sink) {
	c.EachFunc([]string{"pkg/obiseq", "pkg/obiiter", "pkg/obialign", "pkg/obikmer", "pkg/obiapat"}, func(p *packages.Package, fd *ast.FuncDecl) {
		if fd.Name.Name == "init" && fd.Recv == nil {
			return
		}
		info := p.TypesInfo
		a := &gsAnalysis{c: c, p: p, info: info, fd: fd}
		var stack []ast.Node
		seen := map[string]bool{}
		var visit func(n ast.Node)
		visit = func(n ast.Node) {
			if n == nil {
				return
			}
			stack = append(stack, n)
			defer func() { stack = stack[:len(stack)-1] }()
			var targets []ast.Expr
			switch x := n.(type) {
			case *ast.AssignStmt:
				if x.Tok != token.DEFINE {
					targets = x.Lhs
				}
			case *ast.IncDecStmt:
				targets = []ast.Expr{x.X}
			}
			for _, t := range targets {
				base := t
				for {
					switch b := ast.Unparen(base).(type) {
					case *ast.IndexExpr:
						base = b.X
						continue
					case *ast.SelectorExpr:
						if _, isPkg := info.ObjectOf(rootIdent(b.X)).(*types.PkgName); isPkg {
							break
						}
						base = b.X
						continue
					case *ast.StarExpr:
						base = b.X
						continue
					}
					break
				}
				id, ok := ast.Unparen(base).(*ast.Ident)
				if !ok {
					continue
				}
				v, ok := info.ObjectOf(id).(*types.Var)
				if !ok || v.Pkg() == nil || v.Parent() != v.Pkg().Scope() {
					continue
				}
				key := fmt.Sprintf("%s:%s", funcName(p, fd), v.Name())
				if seen[key] {
					continue
				}
				seen[key] = true
				if why, ok := pvExceptions[key]; ok {
					s.Pass(nil, key, n.Pos(), "tabled exception: "+why)
					continue
				}
				if a.synchronised(n, stack) || deferLocked(fd) || onlyCalledLocked(c, p, fd) {
					s.Pass(nil, key, n.Pos(), "store to the package variable is inside a lock region")
				} else {
					s.Fail(nil, key, n.Pos(), fmt.Sprintf("package-level variable %s is written without lock or atomic in a function that parallel workers call: concurrent calls lose updates (result depends on scheduling)", v.Name()))
				}
			}
			var children []ast.Node
			ast.Inspect(n, func(m ast.Node) bool {
				if m == nil || m == n {
					return m == n
				}
				children = append(children, m)
				return false
			})
			for _, ch := range children {
				visit(ch)
			}
		}
		visit(fd.Body)
	})
}

func rootIdent(e ast.Expr) *ast.Ident {
	for {
		switch x := ast.Unparen(e).(type) {
		case *ast.Ident:
			return x
		case *ast.SelectorExpr:
			e = x.X
		case *ast.IndexExpr:
			e = x.X
		case *ast.StarExpr:
			e = x.X
		default:
			return &ast.Ident{Name: "_"}
		}
	}
}

// deferLocked: the function starts with X.Lock(); defer X.Unlock().
func deferLocked(fd *ast.FuncDecl) bool {
	if len(fd.Body.List) < 2 {
		return false
	}
	isCall := func(st ast.Stmt, name string) bool {
		var call *ast.CallExpr
		switch x := st.(type) {
		case *ast.ExprStmt:
			call, _ = x.X.(*ast.CallExpr)
		case *ast.DeferStmt:
			call = x.Call
		}
		if call == nil {
			return false
		}
		sel, ok := call.Fun.(*ast.SelectorExpr)
		return ok && sel.Sel.Name == name
	}
	_, isDefer := fd.Body.List[1].(*ast.DeferStmt)
	return isCall(fd.Body.List[0], "Lock") && isDefer && isCall(fd.Body.List[1], "Unlock")
}

// onlyCalledLocked: every reference to the function in the program is in a
// function that holds a lock for its whole body (Lock(); defer Unlock()).
func onlyCalledLocked(c *Ctx, p *packages.Package, fd *ast.FuncDecl) bool {
	self, _ := p.TypesInfo.Defs[fd.Name].(*types.Func)
	if self == nil {
		return false
	}
	n := 0
	ok := true
	for f, outs := range c.RefGraph().out {
		for _, o := range outs {
			if o == self {
				n++
				cd, _ := c.DeclOf(f)
				if cd == nil || !deferLocked(cd) {
					ok = false
				}
			}
		}
	}
	return n > 0 && ok
}
