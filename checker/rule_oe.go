package main

// OE, RD, XZF — opening errors, byte counts, and the xz footer (C17, C01).

import (
	"fmt"
	"go/ast"
	"go/token"
	"go/types"
	"strings"

	"golang.org/x/tools/go/packages"
)

func init() {
	register(&Rule{
		ID: "OE", Props: []string{"C17", "C03"}, Min: 20,
		Doc: `"any read error … is fatal", at the opening of an input: a reader of sequence files — any call, through a function value included, whose results are (obiiter.IBioSequence, error) — reports
there the errors met while the compression and the format are recognised (the first MiB of decompressed data). At every such call in pkg/ and cmd/ the error is consumed as RE-2 demands: tested, then fatal
or returned in an expression that depends on it; never blank, never logged and stepped over: ReadSequencesBatchFromFiles skipping the file (Errorf; continue) reads 'obiconvert a.fasta cut.fasta.gz
c.fasta' as 100 records, exit 0.`,
		Run: func(c *Ctx, s *Sink) {
			c.EachFunc([]string{"pkg", "cmd"}, func(p *packages.Package, fd *ast.FuncDecl) {
				info := p.TypesInfo
				n := 0
				var stack []ast.Node
				ast.Inspect(fd.Body, func(nd ast.Node) bool {
					if nd == nil {
						stack = stack[:len(stack)-1]
						return true
					}
					stack = append(stack, nd)
					call, ok := nd.(*ast.CallExpr)
					if !ok {
						return true
					}
					tv, ok := info.Types[call]
					if !ok {
						return true
					}
					tup, ok := tv.Type.(*types.Tuple)
					if !ok || tup.Len() != 2 || !isErrorType(tup.At(1).Type()) || !strings.HasSuffix(tup.At(0).Type().String(), "/pkg/obiiter.IBioSequence") {
						return true
					}
					// a reader: its first parameter is the name of the file, or the stream
					var sig *types.Signature
					if ft := info.TypeOf(call.Fun); ft != nil {
						sig, _ = ft.Underlying().(*types.Signature)
					}
					if sig == nil || sig.Params().Len() == 0 {
						return true
					}
					first := sig.Params().At(0).Type().String()
					if sig.Variadic() && sig.Params().Len() == 1 {
						return true // CLIReadBioSequences(filenames...): RE-3 follows its error to OpenSequenceDataErrorMessage
					}
					if first != "string" && first != "io.Reader" && !strings.HasSuffix(first, "/pkg/obiformats.Reader") {
						return true
					}
					n++
					key := fmt.Sprintf("%s:open#%d(%s):error-consumed", funcName(p, fd), n, types.ExprString(call.Fun))
					ok2, why := readErrorDisposition(info, fd, stack, call)
					if ok2 {
						s.Pass(nil, key, call.Pos(), why)
					} else {
						s.Fail(nil, key, call.Pos(), "opening of an input: "+why+" — a file that cannot be opened, or whose first MiB holds a decompression error, is stepped over: obiconvert a.fasta cut.fasta.gz c.fasta processes the two other files and exits 0")
					}
					return true
				})
			})
		},
	})

	register(&Rule{
		ID: "RD", Props: []string{"C01", "C17"}, Min: 3,
		Doc: `"whatever the way the bytes arrive": io.Reader may return bytes TOGETHER with an error (flate hands its last block with io.EOF). In pkg/obiformats and pkg/obiutils, after 'm, err = r.Read(buf)'
the count m is used before any branch on err that leaves (return, break, continue): readFull breaking on err before 'n += m' reads a 600 kB gzip file as 5970 of its 6000 records, exit 0, while the
same file uncompressed, or a small one, is read entirely.`,
		Run: func(c *Ctx, s *Sink) {
			c.EachFunc([]string{"pkg/obiformats", "pkg/obiutils"}, func(p *packages.Package, fd *ast.FuncDecl) {
				info := p.TypesInfo
				n := 0
				var checkList func(list []ast.Stmt)
				uses := func(nd ast.Node, o types.Object) bool {
					u := false
					ast.Inspect(nd, func(m ast.Node) bool {
						if id, ok := m.(*ast.Ident); ok && info.Uses[id] == o {
							u = true
						}
						return true
					})
					return u
				}
				leaves := func(b ast.Node) bool {
					l := false
					ast.Inspect(b, func(m ast.Node) bool {
						switch y := m.(type) {
						case *ast.FuncLit:
							return false
						case *ast.ReturnStmt:
							l = true
						case *ast.BranchStmt:
							if y.Tok == token.BREAK || y.Tok == token.CONTINUE || y.Tok == token.GOTO {
								l = true
							}
						case *ast.CallExpr:
							if noReturnName(fullName(callee(info, y))) {
								l = true
							}
						}
						return true
					})
					return l
				}
				checkList = func(list []ast.Stmt) {
					for i, st := range list {
						as, ok := st.(*ast.AssignStmt)
						if !ok || len(as.Lhs) != 2 || len(as.Rhs) != 1 {
							continue
						}
						call, ok := ast.Unparen(as.Rhs[0]).(*ast.CallExpr)
						if !ok || len(call.Args) != 1 {
							continue
						}
						sel, ok := call.Fun.(*ast.SelectorExpr)
						if !ok || sel.Sel.Name != "Read" {
							continue
						}
						tv, ok := info.Types[call]
						if !ok {
							continue
						}
						tup, ok := tv.Type.(*types.Tuple)
						if !ok || tup.Len() != 2 || !isErrorType(tup.At(1).Type()) {
							continue
						}
						if b, ok := tup.At(0).Type().Underlying().(*types.Basic); !ok || b.Kind() != types.Int {
							continue
						}
						mID, ok := ast.Unparen(as.Lhs[0]).(*ast.Ident)
						if !ok || mID.Name == "_" {
							continue
						}
						mo, eo := info.ObjectOf(mID), rootObj(info, as.Lhs[1])
						n++
						key := fmt.Sprintf("%s:Read#%d:count-before-error", funcName(p, fd), n)
						verdict, why := true, "the count is used before the error is looked at"
						decided := false
						for _, nx := range list[i+1:] {
							// a branch on the error that leaves, standing before any use of the count
							if is, ok := nx.(*ast.IfStmt); ok && eo != nil && uses(is.Cond, eo) && !uses(is.Cond, mo) {
								bodyUses := uses(is.Body, mo)
								if leaves(is.Body) && !bodyUses {
									verdict, why, decided = false, "", true
									break
								}
							}
							if uses(nx, mo) {
								decided = true
								break
							}
						}
						if !decided {
							// the count may be used by the enclosing loop or returned by a later statement: not found in this block
							verdict, why = true, "no branch on the error stands between the read and the end of the block"
						}
						if verdict {
							s.Pass(nil, key, call.Pos(), why)
						} else {
							s.Fail(nil, key, call.Pos(), "the error of Read is tested, and the loop or the function left, before the bytes returned with it are counted: a reader that hands its last bytes together with io.EOF (flate, behind the 64 KiB buffer: any gzip input above that size) loses them — a 600 kB .gz FASTA file read as 5970 of 6000 records, exit 0")
						}
					}
				}
				ast.Inspect(fd.Body, func(nd ast.Node) bool {
					switch y := nd.(type) {
					case *ast.BlockStmt:
						checkList(y.List)
					case *ast.CaseClause:
						checkList(y.Body)
					}
					return true
				})
			})
		},
	})

	register(&Rule{
		ID: "XZF", Props: []string{"C17"}, Min: 1,
		Doc: `"when a … xz … input is cut short, at any byte position": the xz decoder asks for nothing more once a block is complete, so a file cut between two blocks (or right after the stream header)
ends with a plain EOF; only the missing stream footer tells. In pkg/obiformats, in the function that consults closedByFooter(), the condition under which io.EOF becomes io.ErrUnexpectedEOF evaluates to
true — three-valued, every other term unknown — when the error is io.EOF and closedByFooter() is false: 'partial && !closedByFooter()' accepted 11 of the 1718 cuts of a 4-block file.`,
		Run: func(c *Ctx, s *Sink) {
			c.EachFunc([]string{"pkg/obiformats"}, func(p *packages.Package, fd *ast.FuncDecl) {
				info := p.TypesInfo
				n := 0
				ast.Inspect(fd.Body, func(nd ast.Node) bool {
					is, ok := nd.(*ast.IfStmt)
					if !ok {
						return true
					}
					has := false
					var look func(e ast.Node, ci *types.Info, depth int)
					look = func(e ast.Node, ci *types.Info, depth int) {
						ast.Inspect(e, func(m ast.Node) bool {
							if call, ok := m.(*ast.CallExpr); ok {
								if sel, ok := call.Fun.(*ast.SelectorExpr); ok && sel.Sel.Name == "closedByFooter" {
									has = true
								} else if depth < 2 {
									// a predicate method of the module that asks for it (its answer inlined below)
									if ret, ri := predicateBody(c, ci, call); ret != nil {
										look(ret, ri, depth+1)
									}
								}
							}
							return true
						})
					}
					look(is.Cond, info, 0)
					if !has {
						return true
					}
					n++
					key := fmt.Sprintf("%s:footer-test#%d:missing-footer-alone-is-a-truncation", funcName(p, fd), n)
					var evIn func(e ast.Expr, info *types.Info, depth int) int // 1 true, 0 false, -1 unknown
					ev := func(e ast.Expr) int { return evIn(e, info, 0) }
					evIn = func(e ast.Expr, info *types.Info, depth int) int {
						ev := func(e ast.Expr) int { return evIn(e, info, depth) }
						e = ast.Unparen(e)
						switch y := e.(type) {
						case *ast.BinaryExpr:
							switch y.Op {
							case token.LAND:
								a, b := ev(y.X), ev(y.Y)
								if a == 0 || b == 0 {
									return 0
								}
								if a == 1 && b == 1 {
									return 1
								}
								return -1
							case token.LOR:
								a, b := ev(y.X), ev(y.Y)
								if a == 1 || b == 1 {
									return 1
								}
								if a == 0 && b == 0 {
									return 0
								}
								return -1
							case token.EQL, token.NEQ:
								if isObj(info, y.X, "io", "EOF") || isObj(info, y.Y, "io", "EOF") {
									if y.Op == token.EQL {
										return 1
									}
									return 0
								}
							}
						case *ast.UnaryExpr:
							if y.Op == token.NOT {
								switch ev(y.X) {
								case 1:
									return 0
								case 0:
									return 1
								}
							}
						case *ast.CallExpr:
							if sel, ok := y.Fun.(*ast.SelectorExpr); ok && sel.Sel.Name == "closedByFooter" {
								return 0
							}
							if fullName(callee(info, y)) == "errors.Is" && len(y.Args) == 2 && isObj(info, y.Args[1], "io", "EOF") {
								return 1
							}
							if depth < 2 {
								if ret, ri := predicateBody(c, info, y); ret != nil {
									return evIn(ret, ri, depth+1)
								}
							}
						}
						return -1
					}
					// the branch must set the error to something that is not io.EOF
					sets := false
					ast.Inspect(is.Body, func(m ast.Node) bool {
						if as, ok := m.(*ast.AssignStmt); ok && len(as.Rhs) == 1 && isObj(info, as.Rhs[0], "io", "ErrUnexpectedEOF") {
							sets = true
						}
						if r, ok := m.(*ast.ReturnStmt); ok {
							for _, e := range r.Results {
								if isObj(info, e, "io", "ErrUnexpectedEOF") {
									sets = true
								}
							}
						}
						return true
					})
					switch {
					case !sets:
						s.Undecided(nil, key, is.Pos(), "the branch of the footer test does not turn the error into io.ErrUnexpectedEOF")
					case ev(is.Cond) == 1:
						s.Pass(nil, key, is.Pos(), "a clean EOF without the stream footer is a truncation, whatever the other terms")
					default:
						s.Fail(nil, key, is.Pos(), "with the error io.EOF and no stream footer seen the condition is not necessarily true: an xz file cut at a block boundary (the decoder got every byte it asked for) is read as complete — 11 of the 1718 cuts of a 4-block file accepted, 40 sequences of 45, exit 0")
					}
					return true
				})
			})
		},
	})
}

func noReturnName(fn string) bool {
	return strings.Contains(fn, "Fatal") || strings.Contains(fn, "Panic") || fn == "os.Exit"
}
