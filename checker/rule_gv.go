package main

// GV — obigrep's --inverse-match negates the whole selection (C16).

import (
	"go/ast"
	"go/token"
	"go/types"
	"sort"
	"strings"

	"golang.org/x/tools/go/packages"
)

func init() {
	register(&Rule{
		ID: "GV", Props: []string{"C16"}, Min: 1,
		Doc: `with -v obigrep keeps exactly the records (pairs) it would otherwise discard: in the predicate handed to FilterOn/DivideOn by pkg/obitools/obigrep, followed through local
assignments and the package's own assembling functions as chains of SequencePredicate combinators (And, Or, PairedPredicat, Not …), a Not is never followed by another combinator — negating
the per-read predicate and then combining the two reads of a pair gives, for the modes and/or/andnot/xor, a set that is not the complement (with xor, -v has no effect) — and both the paired and
the unpaired assembly contain a chain ending in Not.`,
		Run: runGV,
	})
}

type gvAsg struct {
	rhs  ast.Expr
	pos  token.Pos
	cond bool
}

type gvCtx struct {
	c     *Ctx
	depth int
	// the chains of the arguments given to the parameters of the package functions being followed
	params map[types.Object][][]string
}

func isPredicateMethod(f *types.Func) bool {
	if f == nil {
		return false
	}
	sig, _ := f.Type().(*types.Signature)
	if sig == nil || sig.Recv() == nil {
		return false
	}
	return strings.HasSuffix(namedTypeName(sig.Recv().Type()), "/pkg/obiseq.SequencePredicate")
}

// gvAssignments lists the assignments to each variable of fd, in source order, with whether they sit under a conditional.
func gvAssignments(info *types.Info, fd *ast.FuncDecl) map[types.Object][]gvAsg {
	out := map[types.Object][]gvAsg{}
	var walk func(n ast.Node, cond bool)
	walk = func(n ast.Node, cond bool) {
		ast.Inspect(n, func(m ast.Node) bool {
			switch x := m.(type) {
			case *ast.FuncLit:
				return false
			case *ast.IfStmt:
				if x.Init != nil {
					walk(x.Init, cond)
				}
				walk(x.Body, true)
				if x.Else != nil {
					walk(x.Else, true)
				}
				return false
			case *ast.ForStmt, *ast.RangeStmt, *ast.SwitchStmt, *ast.TypeSwitchStmt, *ast.SelectStmt:
				if m != n {
					walk2 := func(b ast.Node) {
						if b != nil {
							walk(b, true)
						}
					}
					switch y := x.(type) {
					case *ast.ForStmt:
						walk2(y.Body)
					case *ast.RangeStmt:
						walk2(y.Body)
					case *ast.SwitchStmt:
						walk2(y.Body)
					case *ast.TypeSwitchStmt:
						walk2(y.Body)
					case *ast.SelectStmt:
						walk2(y.Body)
					}
					return false
				}
			case *ast.AssignStmt:
				if len(x.Lhs) == len(x.Rhs) {
					for i, l := range x.Lhs {
						if id, ok := ast.Unparen(l).(*ast.Ident); ok {
							if o := info.ObjectOf(id); o != nil {
								out[o] = append(out[o], gvAsg{x.Rhs[i], x.Pos(), cond})
							}
						}
					}
				}
			case *ast.ValueSpec:
				for i, nm := range x.Names {
					if i < len(x.Values) {
						if o := info.ObjectOf(nm); o != nil {
							out[o] = append(out[o], gvAsg{x.Values[i], x.Pos(), cond})
						}
					}
				}
			}
			return true
		})
	}
	walk(fd.Body, false)
	return out
}

func (g *gvCtx) chains(p *packages.Package, fd *ast.FuncDecl, asg map[types.Object][]gvAsg, e ast.Expr, at token.Pos, self types.Object, selfAlts [][]string, depth int) [][]string {
	info := p.TypesInfo
	e = ast.Unparen(e)
	if depth > 12 {
		return [][]string{{"?"}}
	}
	switch x := e.(type) {
	case *ast.Ident:
		o := info.ObjectOf(x)
		if o != nil && o == self {
			return selfAlts
		}
		list := asg[o]
		if len(list) == 0 {
			if pc, ok := g.params[o]; ok && len(pc) > 0 {
				return pc
			}
			return [][]string{{}}
		}
		var cur [][]string
		for _, a := range list {
			if a.pos >= at {
				break
			}
			nw := g.chains(p, fd, asg, a.rhs, a.pos, o, cur, depth+1)
			if a.cond {
				cur = append(append([][]string(nil), cur...), nw...)
			} else {
				cur = nw
			}
		}
		if cur == nil {
			return [][]string{{}}
		}
		return cur
	case *ast.CallExpr:
		f := callee(info, x)
		if isPredicateMethod(f) {
			if sel, ok := ast.Unparen(x.Fun).(*ast.SelectorExpr); ok {
				base := g.chains(p, fd, asg, sel.X, at, self, selfAlts, depth+1)
				var out [][]string
				for _, b := range base {
					out = append(out, append(append([]string(nil), b...), f.Name()))
				}
				return out
			}
		}
		if tv, ok := info.Types[x.Fun]; ok && tv.IsType() && len(x.Args) == 1 {
			return g.chains(p, fd, asg, x.Args[0], at, self, selfAlts, depth+1)
		}
		if f != nil && f.Pkg() == p.Types {
			if d, dp := g.c.DeclOf(f); d != nil && d.Body != nil {
				dasg := gvAssignments(dp.TypesInfo, d)
				// the parameters stand for the arguments of this call
				if g.params == nil {
					g.params = map[types.Object][][]string{}
				}
				k := 0
				for _, fl := range d.Type.Params.List {
					for _, nm := range fl.Names {
						if k < len(x.Args) {
							if po := dp.TypesInfo.ObjectOf(nm); po != nil {
								g.params[po] = g.chains(p, fd, asg, x.Args[k], at, self, selfAlts, depth+1)
							}
						}
						k++
					}
				}
				var out [][]string
				ast.Inspect(d.Body, func(m ast.Node) bool {
					if _, isLit := m.(*ast.FuncLit); isLit {
						return false
					}
					if r, ok := m.(*ast.ReturnStmt); ok && len(r.Results) == 1 {
						out = append(out, g.chains(dp, d, dasg, r.Results[0], r.Pos(), nil, nil, depth+1)...)
					}
					return true
				})
				if len(out) > 0 {
					return out
				}
			}
		}
		return [][]string{{}}
	}
	return [][]string{{}}
}

func runGV(c *Ctx, s *Sink) {
	g := &gvCtx{c: c}
	c.EachFunc([]string{"pkg/obitools/obigrep"}, func(p *packages.Package, fd *ast.FuncDecl) {
		info := p.TypesInfo
		var asg map[types.Object][]gvAsg
		all := map[string]bool{}
		var first token.Pos
		ast.Inspect(fd.Body, func(n ast.Node) bool {
			call, ok := n.(*ast.CallExpr)
			if !ok || len(call.Args) == 0 {
				return true
			}
			f := callee(info, call)
			if f == nil || !strings.HasSuffix(f.Pkg().Path(), "/pkg/obiiter") {
				return true
			}
			switch f.Name() {
			case "FilterOn", "DivideOn", "FilterAnd":
			default:
				return true
			}
			if asg == nil {
				asg = gvAssignments(info, fd)
				first = call.Pos()
			}
			for _, ch := range g.chains(p, fd, asg, call.Args[0], call.Pos(), nil, nil, 0) {
				all[strings.Join(ch, ".")] = true
			}
			return true
		})
		if asg == nil {
			return
		}
		key := funcName(p, fd) + ":negation-outermost"
		var list []string
		for k := range all {
			list = append(list, k)
		}
		sort.Strings(list)
		var bad []string
		pairedNot, plainNot, paired, plain := false, false, false, false
		for _, k := range list {
			ops := strings.Split(k, ".")
			seenNot := false
			isPaired := strings.Contains(k, "PairedPredicat")
			endsNot := len(ops) > 0 && ops[len(ops)-1] == "Not"
			for _, o := range ops {
				if o == "?" {
					bad = append(bad, "chain too deep to follow")
				}
				if seenNot && o != "Not" && o != "" {
					bad = append(bad, "chain "+k+": "+o+" is applied to an already negated predicate")
					break
				}
				if o == "Not" {
					seenNot = true
				}
			}
			if isPaired {
				paired = true
				pairedNot = pairedNot || endsNot
			} else {
				plain = true
				plainNot = plainNot || endsNot
			}
		}
		switch {
		case len(bad) > 0:
			s.Fail(nil, key, first, "the negation requested by -v is not the outermost operation of the selection predicate: "+strings.Join(bad, "; ")+" — the records kept with -v are not the complement of those kept without")
		case paired && !pairedNot:
			s.Fail(nil, key, first, "no chain of the paired-read assembly ends in Not: -v is ignored for paired reads")
		case plain && !plainNot:
			s.Fail(nil, key, first, "no chain of the assembly ends in Not: -v is ignored ["+strings.Join(list, " / ")+"]")
		default:
			s.Pass(nil, key, first, itoa(len(list))+" combinator chains, every Not outermost; paired and unpaired assemblies both end in Not")
		}
	})
}
