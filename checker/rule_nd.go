package main

// ND — map iteration order must not reach an order-sensitive sink (C05, C16).

import (
	"fmt"
	"go/ast"
	"go/token"
	"go/types"
	"os"
	"sort"
	"strings"

	"golang.org/x/tools/go/packages"
)

func init() {
	register(&Rule{
		ID: "ND", Props: []string{"C05", "C16", "C13"}, Min: 3,
		Doc: `nondeterministic-order taint: Go randomises map iteration. (a) A slice filled inside 'for … range <map>' (or returned by a function summarised as doing so:
obiutils.Set.Members, maps.Keys, …) is map-ordered until it is passed to sort.*/slices.Sort*; a map-ordered slice must not reach an order-sensitive sink — the CSV column list
(obiformats.CSVKeys), a strings.Join or a write to an output stream. (b) Inside a map-range loop, order-sensitive effects are forbidden: chaining edit workers (ChainWorkers),
renaming attributes, writing to an output stream. (c) A slice filled in a map-range loop and then sorted by a comparator that reads one field of its multi-field elements keeps the map order
among ties. (d) A slice of records filled in a map-range loop (append or indexed store with a counter) is not returned unsorted. One obligation per map-range loop / per call of a map-ordered
producer in the record-wise command packages.`,
		Run: runND,
	})
}

func isMapType(info *types.Info, e ast.Expr) bool {
	tv, ok := info.Types[e]
	if !ok || tv.Type == nil {
		return false
	}
	_, isMap := tv.Type.Underlying().(*types.Map)
	return isMap
}

var sortFuncs = map[string]bool{
	"sort.Strings": true, "sort.Ints": true, "sort.Slice": true, "sort.SliceStable": true, "sort.Sort": true, "sort.Stable": true, "sort.Float64s": true,
	"slices.Sort": true, "slices.SortFunc": true, "slices.SortStableFunc": true,
	"golang.org/x/exp/slices.Sort": true, "golang.org/x/exp/slices.SortFunc": true,
}

type ndSummary struct {
	c       *Ctx
	tainted map[*types.Func]bool // functions returning a map-ordered slice
}

// appendsInMapRange returns the slice variables appended to inside map-range loops of the body.
func appendsInMapRange(info *types.Info, body ast.Node) map[types.Object]*ast.RangeStmt {
	out := map[types.Object]*ast.RangeStmt{}
	ast.Inspect(body, func(n ast.Node) bool {
		rs, ok := n.(*ast.RangeStmt)
		if !ok || !isMapType(info, rs.X) {
			return true
		}
		ast.Inspect(rs.Body, func(m ast.Node) bool {
			as, ok := m.(*ast.AssignStmt)
			if !ok || len(as.Lhs) != 1 || len(as.Rhs) != 1 {
				return true
			}
			call, ok := ast.Unparen(as.Rhs[0]).(*ast.CallExpr)
			if !ok {
				return true
			}
			if id, ok := call.Fun.(*ast.Ident); ok && id.Name == "append" && len(call.Args) > 0 {
				if o := rootObj(info, as.Lhs[0]); o != nil && rootObj(info, call.Args[0]) == o {
					out[o] = rs
				}
			}
			return true
		})
		// indexed store  result[i] = …  /  (*result)[i] = …  (with i++) also fills in map order
		ast.Inspect(rs.Body, func(m ast.Node) bool {
			as, ok := m.(*ast.AssignStmt)
			if !ok || len(as.Lhs) != 1 || as.Tok != token.ASSIGN {
				return true
			}
			ix, ok := ast.Unparen(as.Lhs[0]).(*ast.IndexExpr)
			if !ok {
				return true
			}
			if _, isConst := info.Types[ix.Index]; isConst && info.Types[ix.Index].Value != nil {
				return true
			}
			if io := rootObj(info, ix.Index); io == nil || io == info.ObjectOf(identOf(rs.Key)) || io == info.ObjectOf(identOf(rs.Value)) {
				return true // indexed by the key itself: position does not depend on the order
			}
			base := ast.Unparen(ix.X)
			if st, ok := base.(*ast.StarExpr); ok {
				base = ast.Unparen(st.X)
			}
			id, ok := base.(*ast.Ident)
			if !ok {
				return true
			}
			o := info.ObjectOf(id)
			if o == nil || (o.Pos() >= rs.Pos() && o.Pos() < rs.End()) {
				return true
			}
			t := o.Type().Underlying()
			if pt, ok := t.(*types.Pointer); ok {
				t = pt.Elem().Underlying()
			}
			if _, ok := t.(*types.Slice); ok {
				out[o] = rs
			}
			return true
		})
		return true
	})
	return out
}

func identOf(e ast.Expr) *ast.Ident {
	if e == nil {
		return nil
	}
	id, _ := ast.Unparen(e).(*ast.Ident)
	return id
}

// partialKeySort: the slice o, filled in map order, is sorted afterwards by a comparator literal that reads a single field
// of its struct elements (which have several): elements equal on that field stay in map order.
func partialKeySort(info *types.Info, body ast.Node, o types.Object, after ast.Node) (token.Pos, string) {
	pos, field := token.NoPos, ""
	ast.Inspect(body, func(n ast.Node) bool {
		call, ok := n.(*ast.CallExpr)
		if !ok || call.Pos() < after.End() || len(call.Args) < 2 || !sortFuncs[fullName(callee(info, call))] || rootObj(info, call.Args[0]) != o {
			return true
		}
		lit, ok := ast.Unparen(call.Args[1]).(*ast.FuncLit)
		if !ok {
			return true
		}
		st := o.Type().Underlying()
		if pt, ok := st.(*types.Pointer); ok {
			st = pt.Elem().Underlying()
		}
		sl, ok := st.(*types.Slice)
		if !ok {
			return true
		}
		el := sl.Elem().Underlying()
		if pt, ok := el.(*types.Pointer); ok {
			el = pt.Elem().Underlying()
		}
		str, ok := el.(*types.Struct)
		if !ok || str.NumFields() < 2 {
			return true
		}
		fields := map[string]bool{}
		other := false
		ast.Inspect(lit.Body, func(m ast.Node) bool {
			switch x := m.(type) {
			case *ast.SelectorExpr:
				if v, ok := info.ObjectOf(x.Sel).(*types.Var); ok && v.IsField() {
					fields[x.Sel.Name] = true
				}
			case *ast.CallExpr:
				other = true // a comparison helper: not judged
			}
			return true
		})
		if len(fields) == 1 && !other {
			for f := range fields {
				pos, field = call.Pos(), f
			}
		}
		return true
	})
	return pos, field
}

func sortedAfter(info *types.Info, body ast.Node, o types.Object, after ast.Node) bool {
	found := false
	ast.Inspect(body, func(n ast.Node) bool {
		call, ok := n.(*ast.CallExpr)
		if !ok || call.Pos() < after.End() || len(call.Args) == 0 {
			return true
		}
		if sortFuncs[fullName(callee(info, call))] {
			if rootObj(info, call.Args[0]) == o {
				found = true
			}
			// sort.Sort(sort.StringSlice(x)) style
			if inner, ok := ast.Unparen(call.Args[0]).(*ast.CallExpr); ok && len(inner.Args) == 1 && rootObj(info, inner.Args[0]) == o {
				found = true
			}
		}
		return true
	})
	return found
}

func (nd *ndSummary) compute() {
	nd.tainted = map[*types.Func]bool{}
	changed := true
	for changed {
		changed = false
		nd.c.EachFunc([]string{"pkg"}, func(p *packages.Package, fd *ast.FuncDecl) {
			self, _ := p.TypesInfo.Defs[fd.Name].(*types.Func)
			if self == nil || nd.tainted[self] {
				return
			}
			info := p.TypesInfo
			taintedVars := nd.taintedVars(info, fd.Body)
			ast.Inspect(fd.Body, func(n ast.Node) bool {
				if _, ok := n.(*ast.FuncLit); ok {
					return false
				}
				if r, ok := n.(*ast.ReturnStmt); ok {
					for _, e := range r.Results {
						if o := rootObj(info, e); o != nil && taintedVars[o] != nil {
							nd.tainted[self] = true
							changed = true
						}
						if call, ok := ast.Unparen(e).(*ast.CallExpr); ok && nd.callTainted(info, call) {
							nd.tainted[self] = true
							changed = true
						}
					}
				}
				return true
			})
		})
	}
}

func (nd *ndSummary) callTainted(info *types.Info, call *ast.CallExpr) bool {
	fn := callee(info, call)
	if fn == nil {
		return false
	}
	switch fullName(fn) {
	case "golang.org/x/exp/maps.Keys", "golang.org/x/exp/maps.Values", "maps.Keys", "maps.Values":
		return true
	}
	return nd.tainted[fn.Origin()]
}

// taintedVars: local slices that are map-ordered at some point and never sorted afterwards.
func (nd *ndSummary) taintedVars(info *types.Info, body ast.Node) map[types.Object]ast.Node {
	out := map[types.Object]ast.Node{}
	for o, rs := range appendsInMapRange(info, body) {
		if !sortedAfter(info, body, o, rs) {
			out[o] = rs
		}
	}
	ast.Inspect(body, func(n ast.Node) bool {
		as, ok := n.(*ast.AssignStmt)
		if !ok || len(as.Lhs) != len(as.Rhs) {
			return true
		}
		for i, r := range as.Rhs {
			if call, ok := ast.Unparen(r).(*ast.CallExpr); ok && nd.callTainted(info, call) {
				if o := rootObj(info, as.Lhs[i]); o != nil && !sortedAfter(info, body, o, as) {
					out[o] = as
				}
			}
		}
		return true
	})
	return out
}

var ndDebug = os.Getenv("OBIVERIF_ND_DEBUG") != ""

// order-sensitive sinks for a map-ordered slice argument
func ndSliceSink(info *types.Info, call *ast.CallExpr) string {
	fn := fullName(callee(info, call))
	switch {
	case fn == modPath+"/pkg/obiformats.CSVKeys":
		return "the CSV column list"
	case fn == "strings.Join":
		return "a joined string"
	}
	if sel, ok := call.Fun.(*ast.SelectorExpr); ok && (sel.Sel.Name == "Write" || sel.Sel.Name == "WriteString") {
		return "an output write"
	}
	if strings.HasPrefix(fn, "fmt.Fprint") || strings.HasPrefix(fn, "fmt.Print") {
		return "printed output"
	}
	return ""
}

var ndScope = []string{"pkg/obiformats", "pkg/obiseq", "pkg/obiiter", "pkg/obitools/obiannotate", "pkg/obitools/obigrep", "pkg/obitools/obiconvert",
	"pkg/obitools/obicsv", "pkg/obitools/obipairing", "pkg/obitools/obimultiplex", "pkg/obitools/obipcr", "pkg/obitools/obicount", "pkg/obitools/obisummary",
	"pkg/obitools/obidistribute", "pkg/obingslibrary", "pkg/obiapat", "pkg/obitools/obidemerge", "pkg/obitools/obijoin", "pkg/obitools/obimicrosat", "pkg/obitools/obiscript", "pkg/obitools/obisplit",
	"pkg/obitools/obitagpcr", "pkg/obitools/obicleandb", "pkg/obitools/obiconsensus", "pkg/obitools/obiclean"}

func runND(c *Ctx, s *Sink) {
	nd := &ndSummary{c: c}
	nd.compute()
	if ndDebug {
		for f := range nd.tainted {
			fmt.Fprintln(os.Stderr, "ND tainted:", fullName(f))
		}
	}
	c.EachFunc(ndScope, func(p *packages.Package, fd *ast.FuncDecl) {
		info := p.TypesInfo
		fname := funcName(p, fd)
		// (a) map-ordered slices reaching sinks
		tv := nd.taintedVars(info, fd.Body)
		nA := 0
		ast.Inspect(fd.Body, func(n ast.Node) bool {
			call, ok := n.(*ast.CallExpr)
			if !ok {
				return true
			}
			what := ndSliceSink(info, call)
			if what == "" {
				return true
			}
			for _, a := range call.Args {
				a = ast.Unparen(a)
				if sl, ok := a.(*ast.SliceExpr); ok {
					a = sl.X
				}
				tainted := false
				src := ""
				if o := rootObj(info, a); o != nil && tv[o] != nil && tv[o].End() <= call.Pos() {
					tainted, src = true, o.Name()
				}
				if inner, ok := a.(*ast.CallExpr); ok && nd.callTainted(info, inner) {
					tainted, src = true, types.ExprString(inner.Fun)+"()"
				}
				if tainted {
					nA++
					s.Fail(nil, fmt.Sprintf("%s:maporder->%s#%d", fname, fullNameShort(callee(info, call), call), nA), call.Pos(),
						fmt.Sprintf("%s is in map iteration order (randomised by Go, never sorted) and becomes %s: the output differs from run to run", src, what))
				}
			}
			return true
		})
		// (c) map-ordered slices sorted on a partial key; (d) map-ordered record slices returned
		nC := 0
		filled := appendsInMapRange(info, fd.Body)
		var objs []types.Object
		for o := range filled {
			objs = append(objs, o)
		}
		sort.Slice(objs, func(i, j int) bool { return objs[i].Pos() < objs[j].Pos() })
		for _, o := range objs {
			rs := filled[o]
			if pos, field := partialKeySort(info, fd.Body, o, rs); pos.IsValid() {
				nC++
				s.Fail(nil, fmt.Sprintf("%s:maporder-ties#%d", fname, nC), pos,
					fmt.Sprintf("%s is filled in map iteration order and then sorted on the single field %s of its elements: two elements equal on %s stay in the (randomised) order of the map — what is decided on the first or the last of them changes from run to run (obimultiplex: two markers whose primers match at the same position, ten identical reads assigned S-SSS--SSS)", o.Name(), field, field))
			}
			if strings.HasSuffix(o.Type().String(), "obiseq.BioSequenceSlice") && !sortedAfter(info, fd.Body, o, rs) {
				ast.Inspect(fd.Body, func(n ast.Node) bool {
					r, ok := n.(*ast.ReturnStmt)
					if !ok || r.Pos() < rs.End() {
						return true
					}
					for _, e := range r.Results {
						e = ast.Unparen(e)
						if st, ok := e.(*ast.StarExpr); ok {
							e = st.X
						}
						if rootObj(info, e) == o {
							nC++
							s.Fail(nil, fmt.Sprintf("%s:maporder-records#%d", fname, nC), r.Pos(),
								fmt.Sprintf("the records of %s are created in map iteration order and returned as they are: the output of the command lists them in an order that changes from run to run (obidemerge: 6 different outputs in 10 runs)", o.Name()))
						}
					}
					return true
				})
			}
		}
		// (e) records stored while ranging over a map-ordered slice (the members of a set, the keys of a map)
		nE := 0
		ast.Inspect(fd.Body, func(n ast.Node) bool {
			rs, ok := n.(*ast.RangeStmt)
			if !ok {
				return true
			}
			x := ast.Unparen(rs.X)
			tainted := false
			if inner, ok := x.(*ast.CallExpr); ok && nd.callTainted(info, inner) {
				tainted = true
			}
			if o := rootObj(info, x); o != nil && tv[o] != nil && tv[o].End() <= rs.Pos() {
				if _, isID := x.(*ast.Ident); isID {
					tainted = true
				}
			}
			if !tainted {
				return true
			}
			stores := false
			ast.Inspect(rs.Body, func(m ast.Node) bool {
				as, ok := m.(*ast.AssignStmt)
				if !ok {
					return true
				}
				for _, l := range as.Lhs {
					var base ast.Expr = l
					if ix, ok := ast.Unparen(l).(*ast.IndexExpr); ok {
						base = ix.X
					}
					if t := info.TypeOf(base); t != nil && strings.HasSuffix(t.String(), "obiseq.BioSequenceSlice") {
						// … a slice the function returns (what stays inside — the pack given to a consensus — has no order)
						bo := rootObj(info, base)
						ast.Inspect(fd.Body, func(q ast.Node) bool {
							if r, ok := q.(*ast.ReturnStmt); ok && bo != nil {
								for _, e := range r.Results {
									e = ast.Unparen(e)
									if u, ok := e.(*ast.UnaryExpr); ok {
										e = u.X
									}
									if st, ok := e.(*ast.StarExpr); ok {
										e = st.X
									}
									if rootObj(info, e) == bo {
										stores = true
									}
								}
							}
							return true
						})
					}
				}
				return true
			})
			if stores {
				nE++
				s.Fail(nil, fmt.Sprintf("%s:maporder-records-loop#%d", fname, nE), rs.Pos(), "records are stored while ranging over a slice that is in map iteration order ("+types.ExprString(rs.X)+", never sorted): the records come out in an order that changes from run to run — obijoin with six partners sharing one key wrote them in 4 different orders in 8 runs, even with --max-cpu 1 --batch-size 1")
			}
			return true
		})
		// (b) order-sensitive effects inside map-range loops
		nB := 0
		ast.Inspect(fd.Body, func(n ast.Node) bool {
			rs, ok := n.(*ast.RangeStmt)
			if !ok || !isMapType(info, rs.X) {
				return true
			}
			nB++
			key := fmt.Sprintf("%s:maprange#%d", fname, nB)
			bad := ""
			ast.Inspect(rs.Body, func(m ast.Node) bool {
				call, ok := m.(*ast.CallExpr)
				if !ok || bad != "" {
					return true
				}
				fn := fullName(callee(info, call))
				switch {
				case fn == modPath+"/pkg/obiseq.(SeqWorker).ChainWorkers":
					bad = "edit workers are chained in map iteration order: when an edit depends on another the result changes from run to run"
				case fn == modPath+"/pkg/obiseq.(BioSequence).RenameAttribute":
					bad = "attributes are renamed in map iteration order: overlapping renames (a→b, b→c) give run-dependent results"
				case strings.HasPrefix(fn, "fmt.Fprint") || strings.HasPrefix(fn, "fmt.Print"):
					bad = "output is printed in map iteration order"
				case fn == modPath+"/pkg/obiiter.(IBioSequence).Push" && !ndIndexedByKey(info, call, rs):
					bad = "the batches of records are handed to the output in map iteration order: the command writes the same records in an order that changes from run to run (obiconsensus: three different orders of its 782 records in four runs)"
				default:
					if sel, ok := call.Fun.(*ast.SelectorExpr); ok && sinkMethods[sel.Sel.Name] && sel.Sel.Name != "Close" && sel.Sel.Name != "Flush" {
						if t, ok := info.Types[sel.X]; ok && (sinkTypes[sinkTypeName(t.Type)] || sinkTypeName(t.Type) == "bytes.Buffer" || sinkTypeName(t.Type) == "strings.Builder" || sinkTypeName(t.Type) == "encoding/csv.Writer") {
							// a sink opened inside the loop belongs to one iteration (one file per key): its content has no order among the keys
							if o := rootObj(info, sel.X); o != nil && o.Pos() > rs.Body.Pos() && o.Pos() < rs.Body.End() {
								return true
							}
							bad = "text is written in map iteration order"
						}
					}
				}
				return true
			})
			// (f) obiclean: what is filed in the annotations of the records under a key that does not come from the key of
			// the loop (the identifier of another record) is overwritten in map order when two iterations meet
			if bad == "" && strings.HasSuffix(p.PkgPath, "/pkg/obitools/obiclean") {
				rk := rootObj(info, rs.Key)
				ast.Inspect(rs.Body, func(m ast.Node) bool {
					as, ok := m.(*ast.AssignStmt)
					if !ok || bad != "" {
						return true
					}
					for _, l := range as.Lhs {
						ix, ok := ast.Unparen(l).(*ast.IndexExpr)
						if !ok {
							continue
						}
						if _, isMap := info.TypeOf(ix.X).Underlying().(*types.Map); !isMap {
							continue
						}
						if _, isCall := ast.Unparen(ix.X).(*ast.CallExpr); !isCall {
							continue // a local table: only the maps reached through an accessor of a record are shared by the iterations
						}
						usesKey := false
						ast.Inspect(ix.Index, func(q ast.Node) bool {
							if id, ok := q.(*ast.Ident); ok && rk != nil && info.ObjectOf(id) == rk {
								usesKey = true
							}
							return true
						})
						if !usesKey {
							bad = "an annotation of a record is filed, inside a loop over a Go map, under a key that is not the key of the loop: when two iterations file under the same key (two fathers bearing the same identifier in two samples) the one that stays is the last visited, which changes from run to run — obiclean_mutation of s is (a)->(g)@10 in 13 % of the runs and (c)->(g)@10 in the others"
						}
					}
					return true
				})
			}
			// (g) a table rebuilt under keys COMPUTED from the keys of the ranged map: two keys may be given the same new key, and the
			// value kept is then the last visited
			if bad == "" && strings.HasSuffix(p.PkgPath, "/pkg/obiseq") {
				rk := rootObj(info, rs.Key)
				ast.Inspect(rs.Body, func(m ast.Node) bool {
					as, ok := m.(*ast.AssignStmt)
					if !ok || bad != "" || as.Tok != token.ASSIGN {
						return true
					}
					for _, l := range as.Lhs {
						ix, ok := ast.Unparen(l).(*ast.IndexExpr)
						if !ok {
							continue
						}
						if _, isMap := info.TypeOf(ix.X).Underlying().(*types.Map); !isMap {
							continue
						}
						call, isCall := ast.Unparen(ix.Index).(*ast.CallExpr)
						if !isCall || rk == nil {
							continue
						}
						if tv, ok := info.Types[call.Fun]; ok && tv.IsType() {
							continue // a conversion is injective
						}
						if fn := callee(info, call); fn != nil && ndInjective[fn.Name()] != "" {
							continue
						}
						uses := false
						ast.Inspect(call, func(q ast.Node) bool {
							if id, ok := q.(*ast.Ident); ok && info.ObjectOf(id) == rk {
								uses = true
							}
							return true
						})
						if uses {
							bad = "a table is rebuilt under keys computed from the keys of a Go map it ranges over: when two keys are given the same new key the value kept is the last visited, which changes from run to run — obicomplement of a record holding the mismatches (T:10)->(A:20) and (U:10)->(A:20) writes position 4 in some runs and 8 in others"
						}
					}
					return true
				})
			}
			if bad != "" {
				s.Fail(nil, key, rs.Pos(), bad)
			} else {
				s.Pass(nil, key, rs.Pos(), "no order-sensitive effect inside the map-range loop")
			}
			return true
		})
	})
}

func fullNameShort(fn *types.Func, call *ast.CallExpr) string {
	if fn != nil {
		return rel(fullName(fn))
	}
	return types.ExprString(call.Fun)
}


// ndIndexedByKey: the receiver of the call is an element selected by the key of the map-range loop (one output per key:
// the order in which different outputs each get their batch does not show).
func ndIndexedByKey(info *types.Info, call *ast.CallExpr, rs *ast.RangeStmt) bool {
	sel, ok := call.Fun.(*ast.SelectorExpr)
	if !ok || rs.Key == nil {
		return false
	}
	ix, ok := ast.Unparen(sel.X).(*ast.IndexExpr)
	if !ok {
		return false
	}
	return rootObj(info, ix.Index) != nil && rootObj(info, ix.Index) == rootObj(info, rs.Key)
}


// ndInjective: functions computing a key that cannot give two keys the same image — one line of reason each.
var ndInjective = map[string]string{
	"StatsOnSlotName": "prefixes the name with a constant",
}
