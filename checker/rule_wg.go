package main

// WG — local worker pools are joined (C13, C15, C19, C04 …: every property
// whose anchor runs a pool around shared state).
//
// For every local sync.WaitGroup wg that is waited on:
//  WG-join : each goroutine started in the function whose body (through the
//            local closures it calls) stores into memory that outlives it
//            calls wg.Done(), so that wg.Wait() really is a barrier for those
//            stores;
//  WG-count: the amount added (Σ Add(e) × multiplicity of the site) equals the
//            number of started goroutines that call Done (same polynomials as
//            IT-2).

import (
	"fmt"
	"go/ast"
	"go/token"
	"go/types"
	"sort"
	"strings"

	"golang.org/x/tools/go/packages"
)

func init() {
	register(&Rule{
		ID: "WG", Props: []string{"C13", "C15", "C19", "C04", "C03", "C16", "C06"}, Min: 22,
		Doc: `worker pools joined by a local sync.WaitGroup: (join) every goroutine started in the function whose body, through the local closures it calls, stores into memory visible
outside of it (fields, elements, captured variables) calls Done() on a WaitGroup of the function — otherwise Wait() returns while that goroutine still writes; (count) the total
passed to Add equals the number of started goroutines that call Done, as polynomials over loop trip counts.`,
		Run: runWG,
	})
}

// wgProps: property attribution by package.
func wgProps(rel string) []string {
	switch {
	case strings.HasPrefix(rel, "pkg/obitools/obiclean"):
		return []string{"C13"}
	case strings.HasPrefix(rel, "pkg/obitools/obirefidx"), strings.HasPrefix(rel, "pkg/obitools/obitag"), strings.HasPrefix(rel, "pkg/obitools/obilandmark"):
		return []string{"C15"}
	case strings.HasPrefix(rel, "pkg/obitools/obiconsensus"):
		return []string{"C19"}
	case strings.HasPrefix(rel, "pkg/obiformats"):
		return []string{"C04", "C16"}
	case strings.HasPrefix(rel, "pkg/obiiter"):
		return []string{"C03", "C16"}
	case strings.HasPrefix(rel, "pkg/obichunk"):
		return []string{"C06", "C16"}
	}
	return nil // pools of tools no property is anchored in (obimatrix, obisummary, obistats)
}

// wgJoinExceptions: goroutines that store outside of themselves without calling Done, with the reason it is harmless.
var wgJoinExceptions = map[string]string{}

func isWaitGroup(t types.Type) bool {
	if p, ok := t.(*types.Pointer); ok {
		t = p.Elem()
	}
	n, ok := t.(*types.Named)
	return ok && n.Obj().Pkg() != nil && n.Obj().Pkg().Path() == "sync" && n.Obj().Name() == "WaitGroup"
}

func runWG(c *Ctx, s *Sink) {
	c.EachFunc([]string{"pkg"}, func(p *packages.Package, fd *ast.FuncDecl) {
		info := p.TypesInfo
		// local WaitGroups
		wgs := map[types.Object]bool{}
		ast.Inspect(fd.Body, func(n ast.Node) bool {
			if id, ok := n.(*ast.Ident); ok {
				if o, ok := info.Defs[id].(*types.Var); ok && !o.IsField() && isWaitGroup(o.Type()) {
					wgs[o] = true
				}
			}
			return true
		})
		if len(wgs) == 0 {
			return
		}
		fname := funcName(p, fd)
		props := wgProps(rel(p.PkgPath))
		if props == nil {
			return
		}
		// closures bound to locals
		closures := map[types.Object]*ast.FuncLit{}
		for o, ds := range collectDefs(info, fd) {
			if len(ds) == 1 && ds[0] != nil {
				if fl, ok := ast.Unparen(ds[0]).(*ast.FuncLit); ok {
					closures[o] = fl
				}
			}
		}
		// sites with ancestor paths
		type site struct {
			node ast.Node
			path []ast.Node
			wg   types.Object
			arg  ast.Expr
		}
		var adds, waits []site
		type goSite struct {
			site
			body *ast.FuncLit
		}
		var gos []goSite
		var stack []ast.Node
		ast.Inspect(fd.Body, func(n ast.Node) bool {
			if n == nil {
				stack = stack[:len(stack)-1]
				return true
			}
			stack = append(stack, n)
			path := append([]ast.Node(nil), stack...)
			switch x := n.(type) {
			case *ast.CallExpr:
				if sel, ok := x.Fun.(*ast.SelectorExpr); ok {
					if o := rootObj(info, sel.X); o != nil && wgs[o] {
						switch sel.Sel.Name {
						case "Add":
							if len(x.Args) == 1 {
								adds = append(adds, site{n, path, o, x.Args[0]})
							}
						case "Wait":
							waits = append(waits, site{n, path, o, nil})
						}
					}
				}
			case *ast.GoStmt:
				g := goSite{site: site{node: n, path: path}}
				switch f := ast.Unparen(x.Call.Fun).(type) {
				case *ast.FuncLit:
					g.body = f
				case *ast.Ident:
					g.body = closures[info.ObjectOf(f)]
				}
				gos = append(gos, g)
			}
			return true
		})
		// Done sites of a body, following local closures
		var donesIn func(fl *ast.FuncLit, seen map[*ast.FuncLit]bool) map[types.Object]int
		donesIn = func(fl *ast.FuncLit, seen map[*ast.FuncLit]bool) map[types.Object]int {
			out := map[types.Object]int{}
			if fl == nil || seen[fl] {
				return out
			}
			seen[fl] = true
			ast.Inspect(fl.Body, func(n ast.Node) bool {
				if g, ok := n.(*ast.GoStmt); ok {
					_ = g
					return false // a nested goroutine's Done is its own
				}
				if lit, ok := n.(*ast.FuncLit); ok && lit != fl {
					return false // a nested literal runs when it is called or started: followed through closures / go statements
				}
				if call, ok := n.(*ast.CallExpr); ok {
					if sel, ok := call.Fun.(*ast.SelectorExpr); ok && sel.Sel.Name == "Done" {
						if o := rootObj(info, sel.X); o != nil && wgs[o] {
							out[o]++
						}
					}
					if id, ok := ast.Unparen(call.Fun).(*ast.Ident); ok {
						if cl := closures[info.ObjectOf(id)]; cl != nil {
							for k, v := range donesIn(cl, seen) {
								out[k] += v
							}
						}
					}
				}
				return true
			})
			return out
		}
		// stores visible outside of a body
		var sharedStore func(fl *ast.FuncLit, seen map[*ast.FuncLit]bool) (token.Pos, string)
		sharedStore = func(fl *ast.FuncLit, seen map[*ast.FuncLit]bool) (token.Pos, string) {
			if fl == nil || seen[fl] {
				return token.NoPos, ""
			}
			seen[fl] = true
			var pos token.Pos
			var what string
			inside := func(o types.Object) bool { return o != nil && o.Pos() >= fl.Pos() && o.Pos() < fl.End() }
			check := func(l ast.Expr) {
				if pos != token.NoPos {
					return
				}
				l = ast.Unparen(l)
				o := info.ObjectOf(rootIdent(l))
				if o == nil || wgs[o] {
					return
				}
				if _, isVar := o.(*types.Var); !isVar {
					return
				}
				switch l.(type) {
				case *ast.Ident:
					if !inside(o) && o.Name() != "_" {
						pos, what = l.Pos(), "captured variable "+o.Name()
					}
				case *ast.SelectorExpr, *ast.IndexExpr, *ast.StarExpr:
					if !inside(o) {
						pos, what = l.Pos(), types.ExprString(l)
						return
					}
					// local alias of shared memory: pointer, slice or map typed local
					switch o.Type().Underlying().(type) {
					case *types.Pointer, *types.Slice, *types.Map:
						// a local freshly allocated inside the body is private
						if ds := collectDefs(info, fl)[o]; len(ds) == 1 && ds[0] != nil {
							if fresh, _ := alIsFresh(info, ds[0]); fresh {
								return
							}
							if u, ok := ast.Unparen(ds[0]).(*ast.UnaryExpr); ok && u.Op == token.AND {
								if _, ok := ast.Unparen(u.X).(*ast.CompositeLit); ok {
									return
								}
							}
						}
						pos, what = l.Pos(), types.ExprString(l)+" (through the local "+o.Name()+")"
					}
				}
			}
			ast.Inspect(fl.Body, func(n ast.Node) bool {
				switch x := n.(type) {
				case *ast.GoStmt:
					return false
				case *ast.AssignStmt:
					if x.Tok != token.DEFINE {
						for _, l := range x.Lhs {
							check(l)
						}
					} else {
						for _, l := range x.Lhs {
							if _, isIdent := ast.Unparen(l).(*ast.Ident); !isIdent {
								check(l)
							}
						}
					}
				case *ast.IncDecStmt:
					check(x.X)
				case *ast.CallExpr:
					if id, ok := ast.Unparen(x.Fun).(*ast.Ident); ok {
						if cl := closures[info.ObjectOf(id)]; cl != nil && pos == token.NoPos {
							if p2, w2 := sharedStore(cl, seen); p2 != token.NoPos {
								pos, what = p2, w2+" (in the closure "+id.Name+")"
							}
						}
					}
				}
				return true
			})
			return pos, what
		}
		waited := map[types.Object]bool{}
		for _, w := range waits {
			waited[w.wg] = true
		}
		if len(waits) == 0 {
			return
		}
		// WG-join
		sort.Slice(gos, func(i, j int) bool { return gos[i].node.Pos() < gos[j].node.Pos() })
		for i, g := range gos {
			key := fmt.Sprintf("%s:go#%d:join", fname, i+1)
			if g.body == nil {
				continue // named function: not a closure over the pool's state
			}
			d := donesIn(g.body, map[*ast.FuncLit]bool{})
			ndone := 0
			for o, k := range d {
				if waited[o] {
					ndone += k
				}
			}
			// the goroutine that waits is the closer
			isWaiter := false
			ast.Inspect(g.body, func(n ast.Node) bool {
				for _, w := range waits {
					if n == w.node {
						isWaiter = true
					}
				}
				return true
			})
			pos, what := sharedStore(g.body, map[*ast.FuncLit]bool{})
			switch {
			case ndone > 0:
				s.Pass(props, key, g.node.Pos(), "goroutine signals the WaitGroup")
			case isWaiter:
				s.Pass(props, key, g.node.Pos(), "goroutine is the one that waits")
			case pos == token.NoPos:
				s.Pass(props, key, g.node.Pos(), "goroutine stores nothing outside of itself")
			default:
				if why, ok := wgJoinExceptions[key]; ok {
					s.Pass(props, key, g.node.Pos(), "tabled: "+why)
					continue
				}
				s.Fail(props, key, g.node.Pos(), fmt.Sprintf("this goroutine stores into %s (%s) but never calls Done() on a WaitGroup of %s: Wait() returns while it is still writing, so what follows reads a half-built structure and the result depends on the schedule and on the number of workers", what, c.Pos(pos), fd.Name.Name))
			}
		}
		// WG-count per WaitGroup
		env := newPolyEnv(info, fd)
		ids := map[ast.Node]int{}
		var names []types.Object
		for o := range waited {
			names = append(names, o)
		}
		sort.Slice(names, func(i, j int) bool { return names[i].Pos() < names[j].Pos() })
		for _, o := range names {
			key := fmt.Sprintf("%s:%s:count", fname, o.Name())
			addTotal, goTotal := poly{}, poly{}
			for _, a := range adds {
				if a.wg == o {
					addTotal = addTotal.add(env.of(a.arg).mul(siteMultiplicity(c, env, a.path, ids)), 1)
				}
			}
			unresolved := false
			for _, g := range gos {
				if g.body == nil {
					// named function receiving the WaitGroup?
					gs := g.node.(*ast.GoStmt)
					for _, a := range gs.Call.Args {
						if ro := rootObj(info, a); ro == o {
							unresolved = true
						}
					}
					continue
				}
				k := donesIn(g.body, map[*ast.FuncLit]bool{})[o]
				if k > 0 {
					goTotal = goTotal.add(siteMultiplicity(c, env, g.path, ids).mul(pconst(k)), 1)
				}
			}
			switch {
			case unresolved:
				s.Undecided(props, key, o.Pos(), "the WaitGroup is handed to a named function started with go")
			case addTotal.equal(goTotal):
				s.Pass(props, key, o.Pos(), fmt.Sprintf("Add total = goroutines calling Done = %s", addTotal))
			default:
				s.Fail(props, key, o.Pos(), fmt.Sprintf("amount added to %s (%s) differs from the number of goroutines that call Done (%s): Wait() returns early, never, or the counter goes negative", o.Name(), addTotal, goTotal))
			}
		}
	})
}
