package main

// RSY — a test of two operands that play the same role treats them alike (C09, C15).

import (
	"fmt"
	"go/ast"
	"go/token"
	"go/types"
	"sort"
	"strings"

	"golang.org/x/tools/go/packages"
)

func init() {
	register(&Rule{
		ID: "RSY", Props: []string{"C09", "C15", "C13"}, Min: 4,
		Doc: `"the one-difference test answers 0 exactly for identical sequences, 1 exactly for one substitution or one indel": the answer cannot depend on which sequence is given first. In the
functions of pkg/obialign whose two first parameters have the same type and whose locals come in pairs distinguished by a final 1 / 2 (l1/l2, b1/b2, e1/e2, s1/s2), every loop condition and
every condition of a branch that returns is invariant under the exchange of the two roles: exchanging the suffixes 1 and 2 everywhere gives the same condition, up to the order of the operands
of &&, ||, ==, != (and of the difference under abs), a > b being b < a. A copy/paste slip such as (l1 > l2 && e1 > b1) || (l1 < l2 && e1 > b1) makes D1Or0(a, b) differ from D1Or0(b, a).`,
		Run: func(c *Ctx, s *Sink) {
			c.EachFunc([]string{"pkg/obialign"}, func(p *packages.Package, fd *ast.FuncDecl) {
				info := p.TypesInfo
				ps := flattenParams(fd.Type.Params)
				if len(ps) < 2 || ps[0] == nil || ps[1] == nil {
					return
				}
				n0, n1 := ps[0].Name, ps[1].Name
				if len(n0) < 2 || n0[:len(n0)-1] != n1[:len(n1)-1] || n0[len(n0)-1] != '1' || n1[len(n1)-1] != '2' {
					return
				}
				if !types.Identical(info.TypeOf(ps[0]), info.TypeOf(ps[1])) {
					return
				}
				swapName := func(n string) string {
					if strings.HasSuffix(n, "1") {
						return n[:len(n)-1] + "2"
					}
					if strings.HasSuffix(n, "2") {
						return n[:len(n)-1] + "1"
					}
					return n
				}
				var canon func(e ast.Expr, swap bool) string
				canon = func(e ast.Expr, swap bool) string {
					e = ast.Unparen(e)
					switch x := e.(type) {
					case *ast.Ident:
						if swap {
							if _, isVar := info.ObjectOf(x).(*types.Var); isVar {
								return swapName(x.Name)
							}
						}
						return x.Name
					case *ast.BasicLit:
						return x.Value
					case *ast.BinaryExpr:
						l, r := canon(x.X, swap), canon(x.Y, swap)
						op := x.Op
						switch op {
						case token.GTR:
							op, l, r = token.LSS, r, l
						case token.GEQ:
							op, l, r = token.LEQ, r, l
						}
						switch op {
						case token.LAND, token.LOR:
							// flatten and sort
							var parts []string
							var flat func(y ast.Expr)
							flat = func(y ast.Expr) {
								y = ast.Unparen(y)
								if b, ok := y.(*ast.BinaryExpr); ok && b.Op == x.Op {
									flat(b.X)
									flat(b.Y)
									return
								}
								parts = append(parts, canon(y, swap))
							}
							flat(x)
							sort.Strings(parts)
							return "(" + strings.Join(parts, " "+op.String()+" ") + ")"
						case token.EQL, token.NEQ, token.ADD, token.MUL:
							if r < l {
								l, r = r, l
							}
						}
						return "(" + l + " " + op.String() + " " + r + ")"
					case *ast.UnaryExpr:
						return x.Op.String() + canon(x.X, swap)
					case *ast.IndexExpr:
						return canon(x.X, swap) + "[" + canon(x.Index, swap) + "]"
					case *ast.SelectorExpr:
						return canon(x.X, swap) + "." + x.Sel.Name
					case *ast.CallExpr:
						fun := types.ExprString(x.Fun)
						var args []string
						for _, a := range x.Args {
							args = append(args, canon(a, swap))
						}
						if fun == "abs" && len(x.Args) == 1 {
							if b, ok := ast.Unparen(x.Args[0]).(*ast.BinaryExpr); ok && b.Op == token.SUB {
								l, r := canon(b.X, swap), canon(b.Y, swap)
								if r < l {
									l, r = r, l
								}
								return "abs(" + l + " - " + r + ")"
							}
						}
						if sel, ok := x.Fun.(*ast.SelectorExpr); ok {
							fun = canon(sel.X, swap) + "." + sel.Sel.Name
						}
						return fun + "(" + strings.Join(args, ",") + ")"
					}
					return types.ExprString(e)
				}
				// the conditions of the enclosing if / switch clauses of a node, as canonical atoms (trichotomy applied:
				// not (a == b) and not (b < a) is (a < b))
				contextOf := func(target ast.Node, swap bool) []string {
					var ctx []string
					var walk func(n ast.Node) bool
					neg := func(e ast.Expr) string { return "!" + canon(e, swap) }
					walk = func(n ast.Node) bool {
						if n == nil || target.Pos() < n.Pos() || target.End() > n.End() {
							return false
						}
						switch y := n.(type) {
						case *ast.IfStmt:
							if y.Body.Pos() <= target.Pos() && target.End() <= y.Body.End() && ast.Node(y) != target {
								ctx = append(ctx, canon(y.Cond, swap))
							} else if y.Else != nil && y.Else.Pos() <= target.Pos() && target.End() <= y.Else.End() {
								ctx = append(ctx, neg(y.Cond))
							}
						case *ast.SwitchStmt:
							if y.Tag == nil {
								for _, cl := range y.Body.List {
									cc := cl.(*ast.CaseClause)
									inside := cc.Pos() <= target.Pos() && target.End() <= cc.End()
									if inside {
										if cc.List != nil {
											for _, e := range cc.List {
												ctx = append(ctx, canon(e, swap))
											}
										} else {
											// default: none of the other clauses
											for _, cl2 := range y.Body.List {
												for _, e := range cl2.(*ast.CaseClause).List {
													ctx = append(ctx, neg(e))
												}
											}
										}
										break
									}
									if cc.List != nil {
										for _, e := range cc.List {
											ctx = append(ctx, neg(e))
										}
									}
								}
								// clauses after the matching one do not constrain it: remove the negations added for them
							}
						}
						return true
					}
					ast.Inspect(fd.Body, walk)
					// a clause after the target's own clause must not count: rebuild for switches in order (done above by the break)
					// trichotomy
					set := map[string]bool{}
					for _, a := range ctx {
						set[a] = true
					}
					for a := range set {
						if strings.HasPrefix(a, "!(") && strings.Contains(a, " == ") {
							inner := strings.TrimSuffix(strings.TrimPrefix(a, "!("), ")")
							parts := strings.SplitN(inner, " == ", 2)
							if len(parts) != 2 {
								continue
							}
							x, y := parts[0], parts[1]
							lt1, lt2 := "("+x+" < "+y+")", "("+y+" < "+x+")"
							switch {
							case set["!"+lt1]:
								delete(set, a)
								delete(set, "!"+lt1)
								set[lt2] = true
							case set["!"+lt2]:
								delete(set, a)
								delete(set, "!"+lt2)
								set[lt1] = true
							case set[lt1] || set[lt2]:
								delete(set, a) // implied
							}
						}
					}
					var out []string
					for a := range set {
						out = append(out, a)
					}
					sort.Strings(out)
					return out
				}
				type exitRec struct {
					node       ast.Node
					cond       ast.Expr
					full, swap string
				}
				var exits []exitRec
				retCanon := func(body *ast.BlockStmt, swap bool) string {
					for _, st := range body.List {
						if r, ok := st.(*ast.ReturnStmt); ok {
							var parts []string
							for _, e := range r.Results {
								parts = append(parts, canon(e, swap))
							}
							return strings.Join(parts, ",")
						}
					}
					return ""
				}
				n := 0
				check := func(cond ast.Expr, what string) {
					// only conditions that mention a role variable
					roles := false
					ast.Inspect(cond, func(m ast.Node) bool {
						if id, ok := m.(*ast.Ident); ok {
							if _, isVar := info.ObjectOf(id).(*types.Var); isVar && swapName(id.Name) != id.Name {
								roles = true
							}
						}
						return true
					})
					if !roles {
						return
					}
					n++
					key := fmt.Sprintf("%s:%s#%d:roles-exchangeable", funcName(p, fd), what, n)
					a, b := canon(cond, false), canon(cond, true)
					if a != b && what == "exit" {
						// the mirror image may be another exit of the function (a switch over l1 == l2 / l1 > l2 / default)
						for _, e := range exits {
							if e.cond == cond {
								for _, o := range exits {
									if o.cond != cond && o.full == e.swap {
										b = a
									}
								}
							}
						}
					}
					if a == b {
						s.Pass(nil, key, cond.Pos(), "invariant under the exchange of the two operands (by itself, or with the exit that mirrors it)")
					} else {
						s.Fail(nil, key, cond.Pos(), "the condition changes when the roles of the two operands are exchanged ("+a+"  vs  "+b+"): the answer depends on which sequence is given first — a query one base shorter than a reference is, or is not, at one difference of it according to the order of the arguments")
					}
				}
				ast.Inspect(fd.Body, func(m ast.Node) bool {
					if x, ok := m.(*ast.IfStmt); ok {
						returns := false
						for _, st := range x.Body.List {
							if _, ok := st.(*ast.ReturnStmt); ok {
								returns = true
							}
						}
						if returns {
							f := strings.Join(append(contextOf(x, false), canon(x.Cond, false)), " && ") + " => " + retCanon(x.Body, false)
							w := strings.Join(append(contextOf(x, true), canon(x.Cond, true)), " && ") + " => " + retCanon(x.Body, true)
							exits = append(exits, exitRec{x, x.Cond, f, w})
						}
					}
					return true
				})
				ast.Inspect(fd.Body, func(m ast.Node) bool {
					switch x := m.(type) {
					case *ast.ForStmt:
						if x.Cond != nil {
							check(x.Cond, "loop")
						}
					case *ast.IfStmt:
						returns := false
						for _, st := range x.Body.List {
							if _, ok := st.(*ast.ReturnStmt); ok {
								returns = true
							}
						}
						if returns {
							check(x.Cond, "exit")
						}
					}
					return true
				})
			})
		},
	})
}

func init() {
	register(&Rule{
		ID: "D0L", Props: []string{"C09", "C13"}, Min: 1,
		Doc: `"the one-difference test answers 0 exactly for identical sequences": two sequences of different lengths are not identical. In obialign.D1Or0 every return whose first result is the
constant 0 is reached only on paths where the two lengths are shown equal, by linear arithmetic over the tests of the path and the invariant of the scanning loop (the two cursors are stepped
together, so their difference is kept): with 'b1 == l1 || b2 == l2' instead of '&&' the answer is 0 as soon as one sequence is a prefix of the other — a single indel of the very last symbol is
reported as no difference at all.`,
		Run: func(c *Ctx, s *Sink) {
			fd, p := c.FindFunc("pkg/obialign", "D1Or0")
			key := "pkg/obialign.D1Or0:zero-only-for-equal-lengths"
			if fd == nil {
				s.Undecided(nil, key, 0, "function not found")
				return
			}
			info := p.TypesInfo
			ps := flattenParams(fd.Type.Params)
			if len(ps) < 2 {
				s.Undecided(nil, key, fd.Pos(), "two parameters expected")
				return
			}
			// the two length expressions: Len() on each parameter
			var lens [2]ast.Expr
			ast.Inspect(fd.Body, func(n ast.Node) bool {
				call, ok := n.(*ast.CallExpr)
				if !ok || len(call.Args) != 0 {
					return true
				}
				sel, ok := call.Fun.(*ast.SelectorExpr)
				if !ok || sel.Sel.Name != "Len" {
					return true
				}
				for k := 0; k < 2; k++ {
					if rootObj(info, sel.X) == info.ObjectOf(ps[k]) && lens[k] == nil {
						lens[k] = call
					}
				}
				return true
			})
			if lens[0] == nil || lens[1] == nil {
				s.Undecided(nil, key, fd.Pos(), "lengths of the two operands not read")
				return
			}
			env := &linEnv{info: info, vars: map[types.Object]linForm{}, defs: map[types.Object][]ast.Expr{}, atoms: map[string]bool{}, lens: map[string]bool{}, elems: map[string]linForm{}, maxPaths: 8192}
			n, bad := 0, token.NoPos
			linWalk([]linPath{{env: env}}, fd.Body.List, func(pth linPath, st ast.Stmt) {
				r, ok := st.(*ast.ReturnStmt)
				if !ok || len(r.Results) == 0 {
					return
				}
				if v, isC := constInt(info, r.Results[0]); !isC || v != 0 {
					return
				}
				n++
				pth.env.cur = pth.sys
				a, ok1 := pth.env.form(lens[0], 0)
				b, ok2 := pth.env.form(lens[1], 0)
				k := pth.known()
				if !ok1 || !ok2 || !k.entails(linLE(a, b)) || !k.entails(linLE(b, a)) {
					bad = r.Pos()
				}
			})
			switch {
			case n == 0:
				s.Undecided(nil, key, fd.Pos(), "no return of the value 0 reached by the path enumeration")
			case bad.IsValid():
				s.Fail(nil, key, bad, "the answer 0 (identical) is returned on a path where the two lengths are not shown equal: as soon as the common prefix exhausts ONE of the sequences — acgt against acgta, a single indel of the very last symbol — the pair is reported as identical")
			default:
				s.Pass(nil, key, fd.Pos(), fmt.Sprintf("%d return(s) of 0, each where len(seq1) = len(seq2) follows from the path", n))
			}
		},
	})
}

func init() {
	register(&Rule{
		ID: "D1W", Props: []string{"C09", "C13"}, Min: 1,
		Doc: `"the one-difference test answers 1 exactly when the sequences differ by one substitution or one indel": once the common prefix and the common suffix are stripped, what is left of the LONGER
sequence (of either, when the lengths are equal) holds at most one symbol. In obialign.D1Or0, at every return whose first result is the constant 1, for each role k: on the paths where len_k >= len_other
is possible, e_k <= b_k follows — by linear arithmetic over the tests of the path and the invariants of the two scanning loops (cursors stepped together: b1 - b2 and e1 - e2 are kept); the cursors
are found by their initialisation (0 compared with the length; length - 1). Testing the window of the shorter sequence instead accepts an indel next to a substitution (..ac.. / ..g..) as one
difference.`,
		Run: func(c *Ctx, s *Sink) {
			fd, p := c.FindFunc("pkg/obialign", "D1Or0")
			key := "pkg/obialign.D1Or0:one-only-when-the-longer-window-holds-one-symbol"
			if fd == nil {
				s.Undecided(nil, key, 0, "function not found")
				return
			}
			info := p.TypesInfo
			ps := flattenParams(fd.Type.Params)
			if len(ps) < 2 {
				s.Undecided(nil, key, fd.Pos(), "two parameters expected")
				return
			}
			// l_k: the variable defined from Len() of parameter k
			var lenVar, endVar, begVar [2]types.Object
			ast.Inspect(fd.Body, func(n ast.Node) bool {
				as, ok := n.(*ast.AssignStmt)
				if !ok || len(as.Lhs) != 1 || len(as.Rhs) != 1 {
					return true
				}
				lhs := rootObj(info, as.Lhs[0])
				if call, ok := ast.Unparen(as.Rhs[0]).(*ast.CallExpr); ok && len(call.Args) == 0 {
					if sel, ok := call.Fun.(*ast.SelectorExpr); ok && sel.Sel.Name == "Len" {
						for k := 0; k < 2; k++ {
							if rootObj(info, sel.X) == info.ObjectOf(ps[k]) && lenVar[k] == nil {
								lenVar[k] = lhs
							}
						}
					}
				}
				// e_k := l_k - 1
				if b, ok := ast.Unparen(as.Rhs[0]).(*ast.BinaryExpr); ok && b.Op == token.SUB {
					if v, isC := constInt(info, b.Y); isC && v == 1 {
						for k := 0; k < 2; k++ {
							if lenVar[k] != nil && rootObj(info, b.X) == lenVar[k] && endVar[k] == nil {
								endVar[k] = lhs
							}
						}
					}
				}
				return true
			})
			// b_k: compared with l_k by < in the condition of a loop that increments it
			ast.Inspect(fd.Body, func(n ast.Node) bool {
				f, ok := n.(*ast.ForStmt)
				if !ok || f.Cond == nil {
					return true
				}
				for _, cj := range conjuncts(f.Cond) {
					if b, ok := ast.Unparen(cj).(*ast.BinaryExpr); ok && b.Op == token.LSS {
						for k := 0; k < 2; k++ {
							if lenVar[k] != nil && rootObj(info, b.Y) == lenVar[k] && begVar[k] == nil {
								if _, isId := ast.Unparen(b.X).(*ast.Ident); isId {
									begVar[k] = rootObj(info, b.X)
								}
							}
						}
					}
				}
				return true
			})
			for k := 0; k < 2; k++ {
				if lenVar[k] == nil || endVar[k] == nil || begVar[k] == nil {
					s.Undecided(nil, key, fd.Pos(), "the length, the begin cursor (0, compared with the length) and the end cursor (length - 1) of each sequence are not all found")
					return
				}
			}
			env := &linEnv{info: info, vars: map[types.Object]linForm{}, defs: map[types.Object][]ast.Expr{}, atoms: map[string]bool{}, lens: map[string]bool{}, elems: map[string]linForm{}, maxPaths: 8192}
			n, bad, why := 0, token.NoPos, ""
			linWalk([]linPath{{env: env}}, fd.Body.List, func(pth linPath, st ast.Stmt) {
				r, ok := st.(*ast.ReturnStmt)
				if !ok || len(r.Results) == 0 {
					return
				}
				if v, isC := constInt(info, r.Results[0]); !isC || v != 1 {
					return
				}
				n++
				pth.env.cur = pth.sys
				var l, e, b [2]linForm
				for k := 0; k < 2; k++ {
					var o1, o2, o3 bool
					l[k], o1 = pth.env.vars[lenVar[k]]
					e[k], o2 = pth.env.vars[endVar[k]]
					b[k], o3 = pth.env.vars[begVar[k]]
					if !o1 || !o2 || !o3 {
						bad, why = r.Pos(), "a cursor is not an affine quantity at the return"
						return
					}
				}
				for k := 0; k < 2; k++ {
					sys := append(append(linSys{}, pth.known()...), linLE(l[1-k], l[k]))
					if sys.infeasible() {
						continue
					}
					if !sys.entails(linLE(e[k], b[k])) {
						bad = r.Pos()
						why = fmt.Sprintf("with len(seq%d) >= len(seq%d), %s <= %s does not follow", k+1, 2-k, endVar[k].Name(), begVar[k].Name())
					}
				}
			})
			switch {
			case n == 0:
				s.Undecided(nil, key, fd.Pos(), "no return of the value 1 reached by the path enumeration")
			case bad.IsValid():
				s.Fail(nil, key, bad, "the answer 1 is returned on a path where the unmatched window of the longer sequence may hold two symbols ("+why+"): an indel next to a substitution — acgtACgt against acgtGgt — is accepted as one difference, obiclean links the two sequences (reported as (-)->(a)@0) and moves the reads of one to the other")
			default:
				s.Pass(nil, key, fd.Pos(), fmt.Sprintf("%d return(s) of 1, each where the window left of the longer sequence holds at most one symbol", n))
			}
		},
	})
}
