package main

// CW — an occurrence counter is as wide as what it counts (C19).

import (
	"fmt"
	"go/ast"
	"go/token"
	"go/types"

	"golang.org/x/tools/go/packages"
)

func init() {
	register(&Rule{
		ID: "CW", Props: []string{"C19", "C15"}, Min: 1,
		Doc: `the 4-mer tables count exactly: in pkg/obikmer a table element incremented once per element of a slice or string whose length nothing bounds (a ++ or += on an indexed element inside a
range / index loop over it) is an integer of at least 32 bits. A 16-bit element wraps at 65536 occurrences without any signal: a homopolymer of 65539 bases counts 0 'aaaa', Sum4Mer and
Common4Mer are then too small, and LCS4MerBounds gives an upper bound below the true LCS — the reference is pruned although it is the best match (obitag, obirefidx).`,
		Run: runCW,
	})
}

func runCW(c *Ctx, s *Sink) {
	c.EachFunc([]string{"pkg/obikmer"}, func(p *packages.Package, fd *ast.FuncDecl) {
		info := p.TypesInfo
		n := 0
		var loops []ast.Node
		var walk func(nd ast.Node) bool
		walk = func(nd ast.Node) bool {
			switch x := nd.(type) {
			case *ast.RangeStmt:
				t := info.TypeOf(x.X)
				unbounded := false
				if t != nil {
					switch u := t.Underlying().(type) {
					case *types.Slice:
						unbounded = true
					case *types.Basic:
						unbounded = u.Info()&types.IsString != 0
					}
				}
				if unbounded {
					loops = append(loops, x)
					ast.Inspect(x.Body, walk)
					loops = loops[:len(loops)-1]
					return false
				}
			case *ast.IncDecStmt, *ast.AssignStmt:
				if len(loops) == 0 {
					return true
				}
				var target ast.Expr
				switch y := x.(type) {
				case *ast.IncDecStmt:
					if y.Tok == token.INC {
						target = y.X
					}
				case *ast.AssignStmt:
					if y.Tok == token.ADD_ASSIGN && len(y.Lhs) == 1 {
						target = y.Lhs[0]
					}
				}
				if target == nil {
					return true
				}
				ix, ok := ast.Unparen(target).(*ast.IndexExpr)
				if !ok {
					return true
				}
				bt, ok := info.TypeOf(ix).Underlying().(*types.Basic)
				if !ok || bt.Info()&types.IsInteger == 0 {
					return true
				}
				n++
				key := fmt.Sprintf("%s:counter#%d", funcName(p, fd), n)
				narrow := false
				switch bt.Kind() {
				case types.Int8, types.Uint8, types.Int16, types.Uint16:
					narrow = true
				}
				if narrow {
					s.Fail(nil, key, nd.Pos(), "the counter "+types.ExprString(ix)+" is a "+bt.Name()+" incremented once per element of a slice of unbounded length: it wraps silently (65536 occurrences for 16 bits) — a 70 kb homopolymer counts 4461 'aaaa', the 4-mer bound derived from the table is below the true LCS and the best reference is pruned")
				} else {
					s.Pass(nil, key, nd.Pos(), "counter of type "+bt.Name())
				}
			}
			return true
		}
		ast.Inspect(fd.Body, walk)
	})
}
