package main

// RS-SM — per-record accumulators of the byte-level FASTA/FASTQ parsers are
// re-initialised for every record: must-define dataflow over the parser's own
// state graph (path-sensitive in the one enumerated variable `state`).

import (
	"fmt"
	"go/ast"
	"go/token"
	"go/types"
	"sort"
	"strings"

	"golang.org/x/tools/go/packages"
)

func init() {
	register(&Rule{
		ID: "RS-SM", Props: []string{"C01", "C02"}, Min: 4,
		Doc: `per-record accumulators of the FASTA/FASTQ chunk parsers are re-initialised for every record: the body of the byte loop (a 'switch state') is evaluated from
its AST for every reachable parser state × 256 bytes × {previous byte is / is not an end of line} × the captured flags, in a tracing mode that records assignments, buffer
Reset/Write calls and the record emission (NewBioSequence, _storeSequenceQuality) without computing any value; a must-define dataflow over the resulting state graph then
requires every variable that flows into an emitted record (identifier, definition, sequence and quality buffers) to have been assigned / Reset since the previous emission on
every path. A reset dropped in one state lets a record inherit the title or annotations of its predecessor in the chunk.`,
		Run: runRSSM,
	})
}

type smEvent struct {
	kind string // "def" | "emit"
	v    types.Object
	uses []types.Object
	pos  token.Pos
}

type smTrans struct {
	from, to int64
	events   []smEvent
}

func runRSSM(c *Ctx, s *Sink) {
	for _, name := range []string{"FastaChunkParser", "FastqChunkParser"} {
		fd, p := c.FindFunc("pkg/obiformats", name)
		if fd == nil {
			s.Undecided(nil, "pkg/obiformats."+name, 0, "parser not found")
			continue
		}
		rssmCheck(c, s, p, fd)
	}
}

func rssmCheck(c *Ctx, s *Sink, p *packages.Package, fd *ast.FuncDecl) {
	info := p.TypesInfo
	fname := funcName(p, fd)
	var lit *ast.FuncLit
	ast.Inspect(fd.Body, func(n ast.Node) bool {
		if l, ok := n.(*ast.FuncLit); ok && lit == nil {
			lit = l
		}
		return true
	})
	if lit == nil {
		s.Undecided(nil, fname, fd.Pos(), "no parser literal")
		return
	}
	var loop *ast.ForStmt
	for _, st := range lit.Body.List {
		if f, ok := st.(*ast.ForStmt); ok && loop == nil {
			loop = f
		}
	}
	if loop == nil {
		s.Undecided(nil, fname, lit.Pos(), "no byte loop")
		return
	}
	// variables: C (defined by the loop init), state, previous
	var cvar, stateVar, prevVar types.Object
	if as, ok := loop.Init.(*ast.AssignStmt); ok && len(as.Lhs) >= 1 {
		cvar = rootObj(info, as.Lhs[0])
	}
	ast.Inspect(loop.Body, func(n ast.Node) bool {
		if sw, ok := n.(*ast.SwitchStmt); ok && sw.Tag != nil && stateVar == nil {
			stateVar = rootObj(info, sw.Tag)
		}
		return true
	})
	// the "previous byte" variable: assigned from the byte variable at the end of the loop body
	for _, st := range loop.Body.List {
		if as, ok := st.(*ast.AssignStmt); ok && len(as.Lhs) == 1 && len(as.Rhs) == 1 && as.Tok == token.ASSIGN {
			if rootObj(info, as.Rhs[0]) == cvar && cvar != nil {
				if id, ok := as.Lhs[0].(*ast.Ident); ok {
					prevVar = info.ObjectOf(id)
				}
			}
		}
	}
	if cvar == nil || stateVar == nil {
		s.Undecided(nil, fname, loop.Pos(), "cannot identify the byte variable and the state variable of the scanner")
		return
	}
	// free boolean variables (captured flags such as with_quality)
	flags := map[types.Object]bool{}
	ast.Inspect(loop.Body, func(n ast.Node) bool {
		if id, ok := n.(*ast.Ident); ok {
			if v, ok := info.Uses[id].(*types.Var); ok && !v.IsField() && v.Pos() < lit.Pos() {
				if b, ok := v.Type().Underlying().(*types.Basic); ok && b.Kind() == types.Bool {
					flags[v] = true
				}
			}
		}
		return true
	})
	var flagList []types.Object
	for f := range flags {
		flagList = append(flagList, f)
	}
	sort.Slice(flagList, func(i, j int) bool { return flagList[i].Pos() < flagList[j].Pos() })
	// buffers aliasing: rawseq := seqBytes.Bytes()  => use of rawseq is a use of seqBytes
	alias := map[types.Object]types.Object{}
	ast.Inspect(loop.Body, func(n ast.Node) bool {
		if as, ok := n.(*ast.AssignStmt); ok && len(as.Lhs) == 1 && len(as.Rhs) == 1 {
			if call, ok := ast.Unparen(as.Rhs[0]).(*ast.CallExpr); ok {
				if sel, ok := call.Fun.(*ast.SelectorExpr); ok && (sel.Sel.Name == "Bytes" || sel.Sel.Name == "String") {
					if src := rootObj(info, sel.X); src != nil {
						if dst := rootObj(info, as.Lhs[0]); dst != nil && within(dst, loop) {
							alias[dst] = src
						}
					}
				}
			}
		}
		return true
	})
	resolve := func(o types.Object) types.Object {
		if a, ok := alias[o]; ok {
			return a
		}
		return o
	}
	recordVar := func(o types.Object) bool { // declared in the literal before the loop
		return o != nil && o.Pos() > lit.Pos() && o.Pos() < loop.Pos()
	}
	initState, ok := 0, false
	for _, st := range lit.Body.List {
		if as, isA := st.(*ast.AssignStmt); isA && as.Tok == token.DEFINE && len(as.Lhs) == 1 && len(as.Rhs) == 1 && rootObj(info, as.Lhs[0]) == stateVar {
			if v, isC := constInt(info, as.Rhs[0]); isC {
				initState, ok = int(v), true
			}
		}
	}
	if !ok {
		s.Undecided(nil, fname, loop.Pos(), "initial parser state is not a constant")
		return
	}
	// enumerate transitions
	var trans []smTrans
	seen := map[int64]bool{int64(initState): true}
	work := []int64{int64(initState)}
	evalErr := ""
	for len(work) > 0 && evalErr == "" {
		st := work[0]
		work = work[1:]
		for b := 0; b < 256 && evalErr == ""; b++ {
			for _, prev := range []int64{'\n', 'a'} {
				for mask := 0; mask < 1<<uint(len(flagList)); mask++ {
					env := map[types.Object]cevalue{cvar: {i: int64(b)}, stateVar: {i: st}}
					if prevVar != nil {
						env[prevVar] = cevalue{i: prev}
					}
					for i, f := range flagList {
						env[f] = cevalue{b: mask&(1<<uint(i)) != 0, isBool: true}
					}
					var events []smEvent
					e := &ceval{p: p, info: info, env: env, c: c, lenient: true, assigned: map[types.Object]bool{}}
					e.onStore = func(o types.Object, rhs ast.Expr) {
						if recordVar(o) && o != stateVar && o != prevVar {
							events = append(events, smEvent{kind: "def", v: o, pos: rhs.Pos()})
						}
					}
					e.onCall = func(call *ast.CallExpr) {
						if sel, ok := call.Fun.(*ast.SelectorExpr); ok {
							if o := rootObj(info, sel.X); recordVar(o) && sel.Sel.Name == "Reset" {
								events = append(events, smEvent{kind: "def", v: o, pos: call.Pos()})
								return
							}
						}
						fn := fullName(callee(info, call))
						if strings.HasSuffix(fn, "/pkg/obiseq.NewBioSequence") || strings.HasSuffix(fn, "/pkg/obiformats._storeSequenceQuality") {
							var uses []types.Object
							for _, a := range call.Args {
								ast.Inspect(a, func(m ast.Node) bool {
									if id, ok := m.(*ast.Ident); ok {
										if o := resolve(info.ObjectOf(id)); recordVar(o) && o != stateVar {
											if _, isSlice := o.Type().Underlying().(*types.Slice); !isSlice {
												uses = append(uses, o)
											}
										}
									}
									return true
								})
							}
							events = append(events, smEvent{kind: "emit", uses: uses, pos: call.Pos()})
						}
					}
					e.block(loop.Body.List)
					if e.err != nil {
						evalErr = e.err.Error()
						break
					}
					if e.fatal {
						continue
					}
					ns := env[stateVar].i
					trans = append(trans, smTrans{from: st, to: ns, events: events})
					if !seen[ns] && len(seen) < 40 {
						seen[ns] = true
						work = append(work, ns)
					}
				}
			}
		}
	}
	if evalErr != "" {
		s.Undecided(nil, fname, loop.Pos(), "cannot evaluate the scanner body: "+evalErr)
		return
	}
	// the emission after the loop (if state == K { … NewBioSequence / _storeSequenceQuality })
	// is treated as one more transition from each state satisfying its guard: approximated by
	// requiring the same variables at every state from which the post-loop code emits; skipped here
	// (its inputs are the ones checked at the in-loop emission of the same state).

	// record variables used by emissions
	used := map[types.Object]bool{}
	for _, t := range trans {
		for _, ev := range t.events {
			if ev.kind == "emit" {
				for _, u := range ev.uses {
					used[u] = true
				}
			}
		}
	}
	var vars []types.Object
	for v := range used {
		vars = append(vars, v)
	}
	sort.Slice(vars, func(i, j int) bool { return vars[i].Pos() < vars[j].Pos() })
	if len(vars) == 0 {
		s.Undecided(nil, fname, loop.Pos(), "no emission found in the scanner")
		return
	}
	for _, v := range vars {
		key := fname + ":" + v.Name()
		// must-define dataflow: D[s] = v defined since the last emission that consumed it, on every path reaching s
		D := map[int64]bool{}
		for st := range seen {
			D[st] = true
		}
		var bad *smEvent
		var badFrom int64
		for changed := true; changed; {
			changed = false
			for _, t := range trans {
				d := D[t.from]
				for i := range t.events {
					ev := &t.events[i]
					switch ev.kind {
					case "def":
						if ev.v == v {
							d = true
						}
					case "emit":
						consumes := false
						for _, u := range ev.uses {
							if u == v {
								consumes = true
							}
						}
						if consumes {
							if !d && bad == nil {
								bad, badFrom = ev, t.from
							}
							d = false
						}
					}
				}
				if D[t.to] && !d {
					D[t.to] = false
					changed = true
				}
			}
		}
		if bad != nil {
			s.Fail(nil, key, bad.pos, fmt.Sprintf("on some path through the parser's states (emission reached from state %d) the record is built from %s without %s having been assigned or reset since the previous record: the record inherits its predecessor's value (title, annotations or bases) whenever that path is taken", badFrom, v.Name(), v.Name()))
		} else {
			s.Pass(nil, key, loop.Pos(), fmt.Sprintf("assigned or reset between two emissions on every path (%d states, %d transitions)", len(seen), len(trans)))
		}
	}
}
