package main

// EG — obiclean keeps SonCount equal to the in-degree of a node (C13).
//
// status (head / internal / singleton) is derived from len(Edges) and SonCount,
// and weights are propagated when AddedSons reaches SonCount: SonCount(f) must
// be the number of edges whose Father is f at all times between phases.
//  EG-add   : every append of makeEdge(j, …) to X.Edges is followed in the same
//             block by an increment of (*seqs)[j].SonCount (same father index);
//  EG-remove: where Edges is compacted in place (X.Edges = e[:j]) each path of
//             the loop body either keeps the edge (j++) or decrements the
//             SonCount of that edge's Father — exactly one of the two.

import (
	"fmt"
	"go/ast"
	"go/token"
	"go/types"
	"strings"

	"golang.org/x/tools/go/packages"
)

func init() {
	register(&Rule{
		ID: "EG", Props: []string{"C13"}, Min: 4,
		Doc: `SonCount is the in-degree: (add) each append of makeEdge(j,…) to a node's Edges is followed in the same block by SonCount++ on the node of index j; (remove) in the in-place
compaction of Edges every path of the loop body either keeps the edge (the kept-count index is incremented) or decrements SonCount of that edge's Father, exactly one of the two.`,
		Run: runEG,
	})
}

func runEG(c *Ctx, s *Sink) {
	c.EachFunc([]string{"pkg/obitools/obiclean"}, func(p *packages.Package, fd *ast.FuncDecl) {
		info := p.TypesInfo
		fname := funcName(p, fd)
		defs := collectDefs(info, fd)
		isField := func(e ast.Expr, name string) bool {
			sel, ok := ast.Unparen(e).(*ast.SelectorExpr)
			if !ok || sel.Sel.Name != name {
				return false
			}
			if v, ok := info.ObjectOf(sel.Sel).(*types.Var); ok && v.IsField() {
				return strings.HasSuffix(types.TypeString(info.TypeOf(sel.X), nil), "obiclean.seqPCR")
			}
			return false
		}
		// index expression of a node: X := (*seqs)[j]  or (*seqs)[j] itself
		nodeIndex := func(e ast.Expr) string {
			e = ast.Unparen(e)
			if id, ok := e.(*ast.Ident); ok {
				if ds := defs[info.ObjectOf(id)]; len(ds) == 1 && ds[0] != nil {
					e = ast.Unparen(ds[0])
				}
			}
			if ix, ok := e.(*ast.IndexExpr); ok {
				return types.ExprString(ix.Index)
			}
			return ""
		}
		nAdd := 0
		var visitBlock func(list []ast.Stmt)
		visitBlock = func(list []ast.Stmt) {
			for i, st := range list {
				as, ok := st.(*ast.AssignStmt)
				if !ok || len(as.Lhs) != 1 || len(as.Rhs) != 1 || !isField(as.Lhs[0], "Edges") {
					continue
				}
				call, ok := ast.Unparen(as.Rhs[0]).(*ast.CallExpr)
				if !ok {
					continue
				}
				if id, ok := call.Fun.(*ast.Ident); !ok || id.Name != "append" || len(call.Args) != 2 {
					continue
				}
				mk, ok := ast.Unparen(call.Args[1]).(*ast.CallExpr)
				if !ok || len(mk.Args) == 0 {
					continue
				}
				nAdd++
				father := types.ExprString(mk.Args[0])
				key := fmt.Sprintf("%s:add#%d", fname, nAdd)
				found, wrong := false, ""
				for _, later := range list[i+1:] {
					// a helper that increments the SonCount of the node it receives (father.addSon(&lock))
					ast.Inspect(later, func(n ast.Node) bool {
						call, ok := n.(*ast.CallExpr)
						if !ok {
							return true
						}
						body, cinfo, bind := c.calleeSource(info, defs, call)
						if body == nil {
							return true
						}
						ast.Inspect(body, func(k ast.Node) bool {
							inc, ok := k.(*ast.IncDecStmt)
							if !ok {
								return true
							}
							sel, ok := ast.Unparen(inc.X).(*ast.SelectorExpr)
							if !ok || sel.Sel.Name != "SonCount" {
								return true
							}
							if arg, ok := bind[rootObj(cinfo, sel.X)]; ok {
								idx := nodeIndex(arg)
								switch {
								case inc.Tok != token.INC:
									wrong = "SonCount is decremented after an edge is added"
								case idx != father:
									wrong = fmt.Sprintf("the edge points to node %s but SonCount of node %s is incremented", father, idx)
								default:
									found = true
								}
							}
							return true
						})
						return true
					})
					ast.Inspect(later, func(n ast.Node) bool {
						if inc, ok := n.(*ast.IncDecStmt); ok && isField(inc.X, "SonCount") {
							sel := ast.Unparen(inc.X).(*ast.SelectorExpr)
							idx := nodeIndex(sel.X)
							switch {
							case inc.Tok != token.INC:
								wrong = "SonCount is decremented after an edge is added"
							case idx != father:
								wrong = fmt.Sprintf("the edge points to node %s but SonCount of node %s is incremented", father, idx)
							default:
								found = true
							}
						}
						return true
					})
				}
				// the link goes to a STRICTLY more abundant sequence, for the one-difference graph and for its extension to
				// larger distances alike: a tie would be linked in the direction given by the positions of the two sequences
				// in the loaded data, which depend on the schedule of the readers
				{
					keyS := key + ":strict"
					son := rootIdent(as.Lhs[0])
					var guard *ast.BinaryExpr
					negated := false
					countCmp := func(e ast.Expr) *ast.BinaryExpr {
						if b, ok := ast.Unparen(e).(*ast.BinaryExpr); ok {
							lx, okx := ast.Unparen(b.X).(*ast.SelectorExpr)
							ly, oky := ast.Unparen(b.Y).(*ast.SelectorExpr)
							if okx && oky && lx.Sel.Name == "Count" && ly.Sel.Name == "Count" {
								return b
							}
						}
						return nil
					}
					ast.Inspect(fd.Body, func(n ast.Node) bool {
						switch x := n.(type) {
						case *ast.IfStmt:
							if as.Pos() >= x.Body.Pos() && as.End() <= x.Body.End() {
								if b := countCmp(x.Cond); b != nil {
									guard, negated = b, false
								}
							}
						case *ast.BlockStmt:
							// 'if <count comparison> { continue }' earlier in a block enclosing the append
							if !(as.Pos() >= x.Pos() && as.End() <= x.End()) {
								return true
							}
							for _, st := range x.List {
								if st.Pos() > as.Pos() {
									break
								}
								if ifs, ok := st.(*ast.IfStmt); ok && ifs.Else == nil && len(ifs.Body.List) == 1 {
									if br, ok := ifs.Body.List[0].(*ast.BranchStmt); ok && br.Tok == token.CONTINUE {
										if b := countCmp(ifs.Cond); b != nil && guard == nil {
											guard, negated = b, true
										}
									}
								}
							}
						}
						return true
					})
					switch {
					case guard == nil:
						s.Fail(nil, keyS, as.Pos(), "the edge is added without comparing the abundances of the two sequences: sequences tied in abundance (or a more abundant son) get linked, in a direction that depends on their positions in the loaded data — with -d 2 the statuses change from run to run")
					default:
						lx := ast.Unparen(guard.X).(*ast.SelectorExpr)
						ly := ast.Unparen(guard.Y).(*ast.SelectorExpr)
						fatherLeft := nodeIndex(lx.X) == father && info.ObjectOf(rootIdent(ly.X)) == info.ObjectOf(son)
						fatherRight := nodeIndex(ly.X) == father && info.ObjectOf(rootIdent(lx.X)) == info.ObjectOf(son)
						op := guard.Op
						if negated {
							op = map[token.Token]token.Token{token.LEQ: token.GTR, token.GEQ: token.LSS, token.LSS: token.GEQ, token.GTR: token.LEQ}[op]
						}
						okStrict := (fatherLeft && op == token.GTR) || (fatherRight && op == token.LSS)
						if okStrict {
							s.Pass(nil, keyS, guard.Pos(), "edge added only when the father is strictly more abundant than the son")
						} else {
							s.Fail(nil, keyS, guard.Pos(), "the abundance test guarding the edge is '"+types.ExprString(guard)+"', not 'father strictly more abundant than son': sequences tied in abundance get linked, one of them becomes internal and the other absorbs its weight")
						}
					}
				}
				switch {
				case wrong != "":
					s.Fail(nil, key, as.Pos(), wrong)
				case !found:
					s.Fail(nil, key, as.Pos(), "an edge to node "+father+" is added without incrementing that node's SonCount: the father is classified as singleton instead of head and its weight is propagated before all its sons were added")
				default:
					s.Pass(nil, key, as.Pos(), "edge to "+father+" paired with SonCount++ of the same node")
				}
			}
		}
		ast.Inspect(fd.Body, func(n ast.Node) bool {
			if b, ok := n.(*ast.BlockStmt); ok {
				visitBlock(b.List)
			}
			return true
		})
		// EG-remove
		ast.Inspect(fd.Body, func(n ast.Node) bool {
			as, ok := n.(*ast.AssignStmt)
			if !ok || len(as.Lhs) != 1 || len(as.Rhs) != 1 || !isField(as.Lhs[0], "Edges") {
				return true
			}
			sl, ok := ast.Unparen(as.Rhs[0]).(*ast.SliceExpr)
			if !ok || sl.High == nil {
				return true
			}
			jid, ok := ast.Unparen(sl.High).(*ast.Ident)
			if !ok {
				return true
			}
			jobj := info.ObjectOf(jid)
			key := fname + ":remove"
			// the loop over the edges that increments j
			var loop *ast.RangeStmt
			ast.Inspect(fd.Body, func(m ast.Node) bool {
				if r, ok := m.(*ast.RangeStmt); ok && r.End() <= as.Pos() {
					uses := false
					ast.Inspect(r.Body, func(k ast.Node) bool {
						if inc, ok := k.(*ast.IncDecStmt); ok {
							if id, ok := inc.X.(*ast.Ident); ok && info.ObjectOf(id) == jobj {
								uses = true
							}
						}
						return true
					})
					if uses {
						loop = r
					}
				}
				return true
			})
			if loop == nil {
				s.Undecided(nil, key, as.Pos(), "Edges is truncated but no compaction loop incrementing "+jid.Name+" was found")
				return true
			}
			var edgeVar types.Object
			if id, ok := loop.Value.(*ast.Ident); ok {
				edgeVar = info.ObjectOf(id)
			}
			type cnt struct{ keep, drop int }
			var paths func(list []ast.Stmt, in []cnt) []cnt
			badFather := ""
			paths = func(list []ast.Stmt, in []cnt) []cnt {
				for _, st := range list {
					switch x := st.(type) {
					case *ast.IncDecStmt:
						if id, ok := x.X.(*ast.Ident); ok && info.ObjectOf(id) == jobj && x.Tok == token.INC {
							for i := range in {
								in[i].keep++
							}
						}
						if isField(x.X, "SonCount") && x.Tok == token.DEC {
							// father of this edge?
							sel := ast.Unparen(x.X).(*ast.SelectorExpr)
							okF := false
							ast.Inspect(sel.X, func(k ast.Node) bool {
								if fs, ok := k.(*ast.SelectorExpr); ok && fs.Sel.Name == "Father" {
									if edgeVar != nil && info.ObjectOf(rootIdent(fs.X)) == edgeVar {
										okF = true
									}
									if ix, ok := ast.Unparen(fs.X).(*ast.IndexExpr); ok && loop.Key != nil && types.ExprString(ix.Index) == types.ExprString(loop.Key) {
										okF = true
									}
								}
								return true
							})
							if !okF {
								badFather = types.ExprString(sel.X)
							}
							for i := range in {
								in[i].drop++
							}
						}
					case *ast.IfStmt:
						a := paths(x.Body.List, append([]cnt(nil), in...))
						var b []cnt
						switch el := x.Else.(type) {
						case *ast.BlockStmt:
							b = paths(el.List, append([]cnt(nil), in...))
						case *ast.IfStmt:
							b = paths([]ast.Stmt{el}, append([]cnt(nil), in...))
						default:
							b = append([]cnt(nil), in...)
						}
						in = append(a, b...)
					case *ast.BlockStmt:
						in = paths(x.List, in)
					}
				}
				return in
			}
			res := paths(loop.Body.List, []cnt{{}})
			var bad []string
			for _, r := range res {
				if r.keep+r.drop != 1 {
					bad = append(bad, fmt.Sprintf("a path of the loop body keeps the edge %d time(s) and decrements SonCount %d time(s)", r.keep, r.drop))
				}
			}
			if badFather != "" {
				bad = append(bad, "the node whose SonCount is decremented ("+badFather+") is not the Father of the edge being dropped")
			}
			if len(bad) > 0 {
				s.Fail(nil, key, loop.Pos(), strings.Join(bad, "; ")+": after the ratio filter SonCount no longer equals the number of remaining sons, so a node that lost all its sons is still reported as head")
			} else {
				s.Pass(nil, key, loop.Pos(), fmt.Sprintf("%d paths: each edge is either kept or un-counted from its father", len(res)))
			}
			return true
		})
	})
}
