package main

// BG — a detached goroutine writing a secondary output is registered before it starts (C03, C16).

import (
	"fmt"
	"go/ast"
	"go/types"
	"strings"

	"golang.org/x/tools/go/packages"
)

func init() {
	register(&Rule{
		ID: "BG", Props: []string{"C03", "C16"}, Min: 3,
		Doc: `the secondary output of a command (obigrep --save-discarded, obimultiplex/obitagpcr -u) is complete when the command exits: the process ends when obiiter.WaitForLastPipe() sees the
pipe counter at zero, and a goroutine started with go whose body writes sequences (CLIWriteBioSequences, obiformats.Write…) registers its own pipes only once the writer is built, after it has
consumed the first batch. So the function starting such a goroutine must call obiiter.RegisterAPipe() (or Add on a WaitGroup) before the go statement, and the goroutine must defer (or end with)
the matching UnregisterPipe()/Done(); otherwise, when the split hands over its last batch and everything else is finished, the counter reaches zero and the file is left empty or never created.`,
		Run: runBG,
	})
}

func runBG(c *Ctx, s *Sink) {
	isWriterCall := func(info *types.Info, call *ast.CallExpr) bool {
		f := callee(info, call)
		if f == nil || f.Pkg() == nil || !strings.HasPrefix(f.Pkg().Path(), modPath) {
			return false
		}
		if strings.HasPrefix(f.Name(), "CLIWrite") {
			return true
		}
		return strings.HasSuffix(f.Pkg().Path(), "/pkg/obiformats") && strings.HasPrefix(f.Name(), "Write")
	}
	isCallTo := func(info *types.Info, call *ast.CallExpr, names ...string) bool {
		f := callee(info, call)
		if f == nil || f.Pkg() == nil {
			return false
		}
		full := f.Pkg().Path() + "." + f.Name()
		if sig, ok := f.Type().(*types.Signature); ok && sig.Recv() != nil {
			full = namedTypeName(derefType(sig.Recv().Type())) + "." + f.Name()
		}
		for _, n := range names {
			if strings.HasSuffix(full, n) {
				return true
			}
		}
		return false
	}
	c.EachFunc([]string{"pkg/obitools", "cmd"}, func(p *packages.Package, fd *ast.FuncDecl) {
		info := p.TypesInfo
		defs := collectDefsTuple(info, fd)
		n := 0
		var litDepth int
		var walk func(node ast.Node) bool
		walk = func(node ast.Node) bool {
			switch x := node.(type) {
			case *ast.FuncLit:
				litDepth++
				ast.Inspect(x.Body, walk)
				litDepth--
				return false
			case *ast.GoStmt:
				body, binfo := c.goTarget(info, defs, x)
				if body == nil {
					return true
				}
				writes := false
				ast.Inspect(body, func(m ast.Node) bool {
					if call, ok := m.(*ast.CallExpr); ok && isWriterCall(binfo, call) {
						writes = true
					}
					return true
				})
				if !writes {
					return true
				}
				n++
				key := fmt.Sprintf("%s:detached-writer#%d", funcName(p, fd), n)
				// registration before the go statement, in the function starting it (not in another literal)
				registered := false
				var depth int
				ast.Inspect(fd.Body, func(m ast.Node) bool {
					if m == nil {
						return true
					}
					if _, isLit := m.(*ast.FuncLit); isLit && !(m.Pos() <= x.Pos() && x.End() <= m.End()) {
						return false
					}
					_ = depth
					if call, ok := m.(*ast.CallExpr); ok && call.End() <= x.Pos() {
						if isCallTo(info, call, "/pkg/obiiter.RegisterAPipe", "sync.WaitGroup.Add") {
							registered = true
						}
					}
					return true
				})
				// release inside the goroutine: deferred, or a top-level statement of its body
				released := false
				for _, st := range body.List {
					switch y := st.(type) {
					case *ast.DeferStmt:
						if isCallTo(binfo, y.Call, "/pkg/obiiter.UnregisterPipe", "sync.WaitGroup.Done") {
							released = true
						}
					case *ast.ExprStmt:
						if call, ok := y.X.(*ast.CallExpr); ok && isCallTo(binfo, call, "/pkg/obiiter.UnregisterPipe", "sync.WaitGroup.Done") {
							released = true
						}
					}
				}
				switch {
				case registered && released:
					s.Pass(nil, key, x.Pos(), "the writing goroutine is registered before it starts and releases its registration when done")
				case !registered:
					s.Fail(nil, key, x.Pos(), "a goroutine writing a secondary output is started without registering a pipe first: nothing waits for it — when the split hands over its last batch while the rest of the pipeline is finished, WaitForLastPipe returns and the process exits before the file is written (empty or missing secondary output, exit status 0)")
				default:
					s.Fail(nil, key, x.Pos(), "the goroutine writing a secondary output never releases the pipe registered for it: the command would not terminate")
				}
				return true
			}
			return true
		}
		ast.Inspect(fd.Body, walk)
	})
}

func derefType(t types.Type) types.Type {
	if p, ok := t.(*types.Pointer); ok {
		return p.Elem()
	}
	return t
}
