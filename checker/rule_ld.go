package main

// LD — sequences are loaded in batch order (C05, C13).

import (
	"go/ast"
	"strings"
)

func init() {
	register(&Rule{
		ID: "LD", Props: []string{"C05", "C13"}, Min: 1,
		Doc: `a data set loaded in memory has the same order at every run: obiiter.(IBioSequence).Load appends the batches it receives, so the iterator it loops over is the result of SortBatches()
applied to its receiver in Load itself (the readers re-order their batches after the parallel header parsing; whatever follows Load — stable sorts by abundance in obiclean, ties between
references in obitag — would otherwise see an order that depends on the schedule of the parsers).`,
		Run: func(c *Ctx, s *Sink) {
			fd, p := c.FindFunc("pkg/obiiter", "(IBioSequence).Load")
			key := "pkg/obiiter.(IBioSequence).Load:batch-order"
			if fd == nil {
				s.Undecided(nil, key, 0, "function not found")
				return
			}
			info := p.TypesInfo
			recv := info.ObjectOf(fd.Recv.List[0].Names[0])
			// the loop over Next()
			var loop *ast.ForStmt
			ast.Inspect(fd.Body, func(n ast.Node) bool {
				if f, ok := n.(*ast.ForStmt); ok && loop == nil && f.Cond != nil {
					if call, ok := ast.Unparen(f.Cond).(*ast.CallExpr); ok {
						if sel, ok := call.Fun.(*ast.SelectorExpr); ok && sel.Sel.Name == "Next" {
							loop = f
						}
					}
				}
				return true
			})
			if loop == nil {
				s.Undecided(nil, key, fd.Pos(), "no loop over Next()")
				return
			}
			it := rootObj(info, ast.Unparen(loop.Cond).(*ast.CallExpr).Fun.(*ast.SelectorExpr).X)
			sorted := false
			for _, st := range fd.Body.List {
				if st.Pos() >= loop.Pos() {
					break
				}
				as, ok := st.(*ast.AssignStmt)
				if !ok || len(as.Lhs) != 1 || len(as.Rhs) != 1 || rootObj(info, as.Lhs[0]) != it {
					continue
				}
				if call, ok := ast.Unparen(as.Rhs[0]).(*ast.CallExpr); ok && strings.HasSuffix(fullName(callee(info, call)), ".SortBatches") {
					if sel, ok := call.Fun.(*ast.SelectorExpr); ok && rootObj(info, sel.X) == recv {
						sorted = true
					}
				}
			}
			if sorted {
				s.Pass(nil, key, loop.Pos(), "Load loops over its receiver passed through SortBatches()")
			} else {
				s.Fail(nil, key, loop.Pos(), "Load appends the batches in the order they arrive: after the parallel header parsing that order changes from run to run, and with it every result that breaks ties by position (obiclean -d 2: 200 to 500 of 6000 statuses differ between two runs on the same file)")
			}
		},
	})
}
