package main

// CB — every criterion builder is combined into the selection predicate.

import (
	"strings"
	"sort"
	"go/ast"
	"go/token"
	"go/types"

	"golang.org/x/tools/go/packages"
)

func init() {
	register(&Rule{
		ID: "CB", Props: []string{"C16"}, Min: 9,
		Doc: `every criterion builder is combined: each function 'func() obiseq.SequencePredicate' of pkg/obitools/obigrep (one per selection option family) is reachable by
static calls from CLISequenceSelectionPredicate, its result is combined with And (initial value or argument of And, assigned back to the accumulated predicate), and the
inversion (-v) is applied after the last And and before the return.`,
		Run: runCB,
	})
}

func runCB(c *Ctx, s *Sink) {
	p := c.Pkg("pkg/obitools/obigrep")
	if p == nil {
		s.Undecided(nil, "pkg/obitools/obigrep", 0, "package not loaded")
		return
	}
	info := p.TypesInfo
	isBuilder := func(fd *ast.FuncDecl) bool {
		if fd.Recv != nil || fd.Type.Params.NumFields() != 0 || fd.Type.Results == nil || len(fd.Type.Results.List) != 1 {
			return false
		}
		tv, ok := info.Types[fd.Type.Results.List[0].Type]
		return ok && namedTypeName(tv.Type) == modPath+"/pkg/obiseq.SequencePredicate"
	}
	builders := map[types.Object]*ast.FuncDecl{}
	var root *ast.FuncDecl
	for _, f := range p.Syntax {
		for _, d := range f.Decls {
			if fd, ok := d.(*ast.FuncDecl); ok && fd.Body != nil && isBuilder(fd) {
				builders[info.Defs[fd.Name]] = fd
				if fd.Name.Name == "CLISequenceSelectionPredicate" {
					root = fd
				}
			}
		}
	}
	// roots: the builders whose result is handed to the filtering functions of the package (the functions calling
	// FilterOn/DivideOn), plus the exported entry point other commands use
	roots := map[*ast.FuncDecl]bool{}
	if root != nil {
		roots[root] = true
	}
	for _, f := range p.Syntax {
		for _, d := range f.Decls {
			fd, ok := d.(*ast.FuncDecl)
			if !ok || fd.Body == nil {
				continue
			}
			filters := false
			ast.Inspect(fd.Body, func(n ast.Node) bool {
				if call, ok := n.(*ast.CallExpr); ok {
					if fn := callee(info, call); fn != nil && fn.Pkg() != nil && strings.HasSuffix(fn.Pkg().Path(), "/pkg/obiiter") && (fn.Name() == "FilterOn" || fn.Name() == "DivideOn") {
						filters = true
					}
				}
				return true
			})
			if !filters {
				continue
			}
			ast.Inspect(fd.Body, func(n ast.Node) bool {
				if call, ok := n.(*ast.CallExpr); ok {
					if b, ok := builders[callee(info, call)]; ok {
						roots[b] = true
					}
				}
				return true
			})
		}
	}
	if len(roots) == 0 {
		s.Undecided(nil, "pkg/obitools/obigrep.CLISequenceSelectionPredicate", 0, "root builder not found")
		return
	}
	// reachability through calls between builders
	reach := map[types.Object]bool{}
	var work []*ast.FuncDecl
	for r := range roots {
		reach[info.Defs[r.Name]] = true
		work = append(work, r)
	}
	for len(work) > 0 {
		fd := work[0]
		work = work[1:]
		ast.Inspect(fd.Body, func(n ast.Node) bool {
			if call, ok := n.(*ast.CallExpr); ok {
				if fn := callee(info, call); fn != nil {
					if b, ok := builders[fn]; ok && !reach[fn] {
						reach[fn] = true
						work = append(work, b)
					}
				}
			}
			return true
		})
	}
	for o, fd := range builders {
		if roots[fd] {
			continue
		}
		key := funcName(p, fd)
		if reach[o] {
			s.Pass(nil, key, fd.Pos(), "criterion builder is combined into the selection predicate")
		} else {
			s.Fail(nil, key, fd.Pos(), "criterion builder is never combined into CLISequenceSelectionPredicate: the options it reads are accepted on the command line and ignored")
		}
	}
	// shape of the assembling function (the reachable builder holding the longest And chain; the root itself, or the
	// helper it delegates to): p := B(); p = p.And(B()) ...; [if inv { p = p.Not() }]; return p
	nAnd := func(fd *ast.FuncDecl) int {
		n := 0
		ast.Inspect(fd.Body, func(m ast.Node) bool {
			if call, ok := m.(*ast.CallExpr); ok {
				if sel, ok := call.Fun.(*ast.SelectorExpr); ok && sel.Sel.Name == "And" {
					if b, ok := ast.Unparen(call.Args[0]).(*ast.CallExpr); ok {
						if _, isB := builders[callee(info, b)]; isB {
							n++
						}
					}
				}
			}
			return true
		})
		return n
	}
	best := -1
	var names []string
	byName := map[string]*ast.FuncDecl{}
	for o, fd := range builders {
		if reach[o] {
			names = append(names, fd.Name.Name)
			byName[fd.Name.Name] = fd
		}
	}
	sort.Strings(names)
	for _, nm := range names {
		if k := nAnd(byName[nm]); k > best {
			best, root = k, byName[nm]
		}
	}
	rootIsEntry := roots[root]
	var acc types.Object
	lastAnd, notPos, retPos := token.NoPos, token.NoPos, token.NoPos
	okShape := true
	why := ""
	for _, st := range root.Body.List {
		switch x := st.(type) {
		case *ast.AssignStmt:
			if len(x.Lhs) != 1 || len(x.Rhs) != 1 {
				okShape, why = false, "unexpected assignment"
				continue
			}
			id, _ := x.Lhs[0].(*ast.Ident)
			if id == nil {
				okShape, why = false, "unexpected assignment"
				continue
			}
			if acc == nil {
				acc = info.ObjectOf(id)
				continue
			}
			if info.ObjectOf(id) != acc {
				continue
			}
			call, ok := x.Rhs[0].(*ast.CallExpr)
			if !ok {
				okShape, why = false, "accumulated predicate overwritten"
				continue
			}
			sel, ok := call.Fun.(*ast.SelectorExpr)
			if !ok || !(sel.Sel.Name == "And") || rootObj(info, sel.X) != acc {
				okShape, why = false, "accumulated predicate combined with something else than And (a criterion becomes optional or replaces the others)"
				continue
			}
			lastAnd = x.Pos()
		case *ast.IfStmt:
			ast.Inspect(x.Body, func(n ast.Node) bool {
				if call, ok := n.(*ast.CallExpr); ok {
					if sel, ok := call.Fun.(*ast.SelectorExpr); ok && sel.Sel.Name == "Not" && rootObj(info, sel.X) == acc {
						notPos = x.Pos()
					}
				}
				return true
			})
		case *ast.ReturnStmt:
			retPos = x.Pos()
			if len(x.Results) != 1 || rootObj(info, x.Results[0]) != acc {
				okShape, why = false, "the function does not return the accumulated predicate"
			}
		}
	}
	key := funcName(p, root) + ":shape"
	switch {
	case !okShape:
		s.Fail(nil, key, root.Pos(), why)
	case notPos == token.NoPos && rootIsEntry:
		s.Fail(nil, key, root.Pos(), "the inversion of the match (-v) is never applied")
	case notPos != token.NoPos && notPos < lastAnd:
		s.Fail(nil, key, root.Pos(), "the inversion (-v) is applied before the last criterion is combined: that criterion is not inverted")
	case notPos != token.NoPos && retPos < notPos:
		s.Fail(nil, key, root.Pos(), "return precedes the inversion")
	default:
		s.Pass(nil, key, root.Pos(), "criteria combined with And only, inversion (when applied here; rule GV otherwise) after the last And, accumulated predicate returned")
	}
}

var _ = packages.NeedName
