package main

// I32 — a length handed to the 32-bit C side is bounded before a constant is added to it (C11).
// RQ  — a required option whose default is a sentinel is refused below its first meaningful value (C11).

import (
	"fmt"
	"go/ast"
	"go/token"
	"go/types"
	"strings"

	"golang.org/x/tools/go/packages"
)

func init() {
	register(&Rule{
		ID: "I32", Props: []string{"C11", "C10"}, Min: 2,
		Doc: `"every amplicon whose length lies within the bounds is reported": the window in which the second primer is searched is a Go int — first match + --max-length + primer — and reaches the C matcher
as an int32. In pkg/obiapat every conversion to the C 32-bit integer of 'p + constant', p an int parameter of the function, is preceded by a statement that bounds p from above (an assignment to p under a test
'p > …'): unbounded, --max-length 4294967296 (a natural "no limit") wraps to a small or negative window and obipcr reports no amplicon, silently.`,
		Run: func(c *Ctx, s *Sink) {
			c.EachFunc([]string{"pkg/obiapat"}, func(p *packages.Package, fd *ast.FuncDecl) {
				if rel(p.PkgPath) != "pkg/obiapat" || fd.Type.Params == nil {
					return
				}
				info := p.TypesInfo
				params := map[types.Object]bool{}
				for _, prm := range flattenParams(fd.Type.Params) {
					if prm != nil {
						if o := info.ObjectOf(prm); o != nil && o.Type().String() == "int" {
							params[o] = true
						}
					}
				}
				n := 0
				ast.Inspect(fd.Body, func(nd ast.Node) bool {
					call, ok := nd.(*ast.CallExpr)
					if !ok || len(call.Args) != 1 {
						return true
					}
					tv, ok := info.Types[call.Fun]
					if !ok || !tv.IsType() {
						return true
					}
					bt, ok := tv.Type.Underlying().(*types.Basic)
					if !ok || bt.Kind() != types.Int32 || !strings.Contains(tv.Type.String(), "_Ctype_") {
						return true
					}
					b, ok := ast.Unparen(call.Args[0]).(*ast.BinaryExpr)
					if !ok || b.Op != token.ADD {
						return true
					}
					var prm types.Object
					for _, side := range []ast.Expr{b.X, b.Y} {
						if id, ok := ast.Unparen(side).(*ast.Ident); ok && params[info.ObjectOf(id)] {
							prm = info.ObjectOf(id)
						}
					}
					if prm == nil {
						return true
					}
					n++
					key := fmt.Sprintf("%s:int32#%d:%s-bounded-from-above", funcName(p, fd), n, prm.Name())
					bounded := false
					ast.Inspect(fd.Body, func(m ast.Node) bool {
						is, ok := m.(*ast.IfStmt)
						if !ok || is.Pos() > call.Pos() {
							return true
						}
						upper := false
						for _, dj := range disjunctsOf(is.Cond) {
							if e, ok := ast.Unparen(dj).(*ast.BinaryExpr); ok {
								if (e.Op == token.GTR || e.Op == token.GEQ) && rootObj(info, e.X) == prm {
									upper = true
								}
								if (e.Op == token.LSS || e.Op == token.LEQ) && rootObj(info, e.Y) == prm {
									upper = true
								}
							}
						}
						if !upper {
							return true
						}
						for _, st := range is.Body.List {
							if as, ok := st.(*ast.AssignStmt); ok && len(as.Lhs) == 1 && rootObj(info, as.Lhs[0]) == prm {
								bounded = true
							}
						}
						return true
					})
					if bounded {
						s.Pass(nil, key, call.Pos(), prm.Name()+" is bounded from above before the constant is added and the sum converted")
					} else {
						s.Fail(nil, key, call.Pos(), "the int "+prm.Name()+" is only bounded from below before "+types.ExprString(call.Args[0])+" is converted to the 32 bits of the C side: a window computed from --max-length 4294967296 (or 4294967295, 8589934592) wraps around, the second primer is searched in an empty window and obipcr reports 0 amplicon for a barcode of 200 bp")
					}
					return true
				})
			})
		},
	})

	register(&Rule{
		ID: "RQ", Props: []string{"C11"}, Min: 1,
		Doc: `"within the bounds given": in pkg/obitools/obipcr an integer option declared Required with a negative default (a sentinel the user never means) is read through an accessor that refuses the values below
a constant with a fatal message before returning the variable: the library reads 0 and below as "no bound", so obipcr -L 0 searched without bound and -L 0 --fragmented cut the templates into pieces
shorter than any amplicon and reported nothing — two answers for one command line.`,
		Run: func(c *Ctx, s *Sink) {
			p := c.Pkg("pkg/obitools/obipcr")
			if p == nil {
				s.Undecided(nil, "pkg/obitools/obipcr", 0, "package not loaded")
				return
			}
			info := p.TypesInfo
			// the variables of the required integer options with a negative default
			required := map[types.Object]token.Pos{}
			for _, f := range p.Syntax {
				ast.Inspect(f, func(n ast.Node) bool {
					call, ok := n.(*ast.CallExpr)
					if !ok || len(call.Args) < 3 {
						return true
					}
					sel, ok := call.Fun.(*ast.SelectorExpr)
					if !ok || sel.Sel.Name != "IntVar" {
						return true
					}
					u, ok := call.Args[0].(*ast.UnaryExpr)
					if !ok || u.Op != token.AND {
						return true
					}
					v := rootObj(info, u.X)
					def, isC := constInt(info, call.Args[2])
					if v == nil || !isC || def >= 0 {
						return true
					}
					for _, a := range call.Args[3:] {
						if ac, ok := a.(*ast.CallExpr); ok {
							if as, ok := ac.Fun.(*ast.SelectorExpr); ok && as.Sel.Name == "Required" {
								required[v] = call.Pos()
							}
						}
					}
					return true
				})
			}
			for v, pos := range required {
				key := "pkg/obitools/obipcr:option " + v.Name() + ":refused-below-its-first-meaningful-value"
				ok, found := false, false
				for _, f := range p.Syntax {
					for _, d := range f.Decls {
						fd, isF := d.(*ast.FuncDecl)
						if !isF || fd.Body == nil || fd.Type.Results == nil {
							continue
						}
						returnsIt := false
						ast.Inspect(fd.Body, func(n ast.Node) bool {
							if r, isR := n.(*ast.ReturnStmt); isR && len(r.Results) == 1 && rootObj(info, r.Results[0]) == v {
								if _, isId := ast.Unparen(r.Results[0]).(*ast.Ident); isId {
									returnsIt = true
								}
							}
							return true
						})
						if !returnsIt {
							continue
						}
						found = true
						ast.Inspect(fd.Body, func(n ast.Node) bool {
							is, isIf := n.(*ast.IfStmt)
							if !isIf || !leavesOrFatal(info, is.Body) {
								return true
							}
							if _, isRet := is.Body.List[len(is.Body.List)-1].(*ast.ReturnStmt); isRet {
								return true
							}
							for _, dj := range disjunctsOf(is.Cond) {
								if e, isB := ast.Unparen(dj).(*ast.BinaryExpr); isB && (e.Op == token.LSS || e.Op == token.LEQ) && rootObj(info, e.X) == v {
									if _, isC := constInt(info, e.Y); isC {
										ok = true
									}
								}
							}
							return true
						})
					}
				}
				switch {
				case !found:
					s.Undecided(nil, key, pos, "no accessor returning "+v.Name()+" found")
				case ok:
					s.Pass(nil, key, pos, "the accessor ends the program on a value below a constant")
				default:
					s.Fail(nil, key, pos, "the value of the required option is forwarded as given: 0 and the negative values mean \"no bound\" for the library — obipcr -L 0 reports the 60 bp barcode, -L 0 --fragmented reports nothing")
				}
			}
		},
	})
}
