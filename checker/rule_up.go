package main

// UP — an option handed to a worker constructor is used by it (C16).

import (
	"fmt"
	"go/ast"
	"go/types"

	"golang.org/x/tools/go/packages"
)

func init() {
	register(&Rule{
		ID: "UP", Props: []string{"C16"}, Min: 30,
		Doc: `"applies every requested edit … as their options say": the option values travel to the workers as parameters. In pkg/obitools/obiannotate, obigrep, obidistribute and obimultiplex every named
parameter of a function is read in its body (or is the blank identifier): MatchPatternWorker received bothStrand and never read it — obiannotate --pattern P --only-forward searched the reverse
strand all the same and annotated a record holding the pattern on that strand only (pattern_location=complement(..)), where obigrep honours the option.`,
		Run: func(c *Ctx, s *Sink) {
			c.EachFunc([]string{"pkg/obitools/obiannotate", "pkg/obitools/obigrep", "pkg/obitools/obidistribute", "pkg/obitools/obimultiplex"}, func(p *packages.Package, fd *ast.FuncDecl) {
				info := p.TypesInfo
				for _, id := range flattenParams(fd.Type.Params) {
					if id == nil || id.Name == "_" {
						continue
					}
					o := info.ObjectOf(id)
					used := false
					ast.Inspect(fd.Body, func(n ast.Node) bool {
						if x, ok := n.(*ast.Ident); ok && info.Uses[x] == o {
							used = true
						}
						return true
					})
					key := fmt.Sprintf("%s:parameter %s:read", funcName(p, fd), id.Name)
					if used {
						s.Pass(nil, key, id.Pos(), "read in the body")
					} else {
						s.Fail(nil, key, id.Pos(), "the parameter "+id.Name+" is never read: the option it carries has no effect — obiannotate --pattern P --only-forward annotates a record that holds the pattern on its reverse strand only")
					}
				}
			})
		},
	})
}

func init() {
	register(&Rule{
		ID: "SO", Props: []string{"C16"}, Min: 1,
		Doc: `"applies every requested edit (set …)": several -S options are chained in the order they are given — an expression may use the attribute a former one sets. In pkg/obitools/obiannotate the
function that builds the chain of obiseq.EditAttributeWorker ranges directly over a slice it receives (the occurrences of the option, in command-line order), not over the keys of a map, sorted or
not: evaluated in the alphabetical order of the keys, -S 'n=sequence.Len()' -S 'm=annotations.n*2' found no n when it computed m and wrote 0 of 4 records, exit 0, while the same request
with the keys a and b worked.`,
		Run: func(c *Ctx, s *Sink) {
			c.EachFunc([]string{"pkg/obitools/obiannotate"}, func(p *packages.Package, fd *ast.FuncDecl) {
				info := p.TypesInfo
				n := 0
				ast.Inspect(fd.Body, func(nd ast.Node) bool {
					rs, ok := nd.(*ast.RangeStmt)
					if !ok {
						return true
					}
					calls := false
					ast.Inspect(rs.Body, func(m ast.Node) bool {
						if call, ok := m.(*ast.CallExpr); ok {
							if fn := callee(info, call); fn != nil && fn.Name() == "EditAttributeWorker" {
								calls = true
							}
						}
						return true
					})
					if !calls {
						return true
					}
					n++
					key := fmt.Sprintf("%s:chain#%d:in-the-order-given", funcName(p, fd), n)
					o := rootObj(info, rs.X)
					_, isID := ast.Unparen(rs.X).(*ast.Ident)
					if o != nil && isID && isParamOf(info, fd, o) {
						if _, isSlice := o.Type().Underlying().(*types.Slice); isSlice {
							s.Pass(nil, key, rs.Pos(), "the expressions are chained in the order of the slice the function receives")
							return true
						}
					}
					s.Fail(nil, key, rs.Pos(), "the -S expressions are not chained in the order they were given (the loop does not range over the slice of the occurrences the function receives): with the keys sorted, -S 'n=sequence.Len()' -S 'm=annotations.n*2' evaluates m first, fails on every record and writes none, exit 0")
					return true
				})
			})
		},
	})
}
