package main

// UP — an option handed to a worker constructor is used by it (C16).

import (
	"fmt"
	"go/ast"
	"go/types"

	"golang.org/x/tools/go/packages"
)

func init() {
	register(&Rule{
		ID: "UP", Props: []string{"C16"}, Min: 30,
		Doc: `"applies every requested edit … as their options say": the option values travel to the workers as parameters. In pkg/obitools/obiannotate, obigrep, obidistribute and obimultiplex every named
parameter of a function is read in its body (or is the blank identifier): MatchPatternWorker received bothStrand and never read it — obiannotate --pattern P --only-forward searched the reverse
strand all the same and annotated a record holding the pattern on that strand only (pattern_location=complement(..)), where obigrep honours the option.`,
		Run: func(c *Ctx, s *Sink) {
			c.EachFunc([]string{"pkg/obitools/obiannotate", "pkg/obitools/obigrep", "pkg/obitools/obidistribute", "pkg/obitools/obimultiplex"}, func(p *packages.Package, fd *ast.FuncDecl) {
				info := p.TypesInfo
				for _, id := range flattenParams(fd.Type.Params) {
					if id == nil || id.Name == "_" {
						continue
					}
					o := info.ObjectOf(id)
					used := false
					ast.Inspect(fd.Body, func(n ast.Node) bool {
						if x, ok := n.(*ast.Ident); ok && info.Uses[x] == o {
							used = true
						}
						return true
					})
					key := fmt.Sprintf("%s:parameter %s:read", funcName(p, fd), id.Name)
					if used {
						s.Pass(nil, key, id.Pos(), "read in the body")
					} else {
						s.Fail(nil, key, id.Pos(), "the parameter "+id.Name+" is never read: the option it carries has no effect — obiannotate --pattern P --only-forward annotates a record that holds the pattern on its reverse strand only")
					}
				}
			})
		},
	})
}

func init() {
	register(&Rule{
		ID: "SO", Props: []string{"C16"}, Min: 1,
		Doc: `"applies every requested edit (set …)": several -S options are chained in the order they are given — an expression may use the attribute a former one sets. In pkg/obitools/obiannotate the
function that builds the chain of obiseq.EditAttributeWorker ranges directly over a slice it receives (the occurrences of the option, in command-line order), not over the keys of a map, sorted or
not: evaluated in the alphabetical order of the keys, -S 'n=sequence.Len()' -S 'm=annotations.n*2' found no n when it computed m and wrote 0 of 4 records, exit 0, while the same request
with the keys a and b worked.`,
		Run: func(c *Ctx, s *Sink) {
			c.EachFunc([]string{"pkg/obitools/obiannotate"}, func(p *packages.Package, fd *ast.FuncDecl) {
				info := p.TypesInfo
				n := 0
				ast.Inspect(fd.Body, func(nd ast.Node) bool {
					rs, ok := nd.(*ast.RangeStmt)
					if !ok {
						return true
					}
					calls := false
					ast.Inspect(rs.Body, func(m ast.Node) bool {
						if call, ok := m.(*ast.CallExpr); ok {
							if fn := callee(info, call); fn != nil && fn.Name() == "EditAttributeWorker" {
								calls = true
							}
						}
						return true
					})
					if !calls {
						return true
					}
					n++
					key := fmt.Sprintf("%s:chain#%d:in-the-order-given", funcName(p, fd), n)
					o := rootObj(info, rs.X)
					_, isID := ast.Unparen(rs.X).(*ast.Ident)
					if o != nil && isID && isParamOf(info, fd, o) {
						if _, isSlice := o.Type().Underlying().(*types.Slice); isSlice {
							// … and what the callers give for it is not a slice filled in the order of a Go map
							if bad := soMapOrderedArgument(c, p, fd, o); bad != "" {
								s.Fail(nil, key, rs.Pos(), "the -S expressions reach the chain in the order of a Go map ("+bad+" fills the slice while ranging over a map): -S 'b=1' -S 'a=annotations.b+1' evaluates a first in some runs and fails")
								return true
							}
							s.Pass(nil, key, rs.Pos(), "the expressions are chained in the order of the slice the function receives, which no caller fills in map order")
							return true
						}
					}
					s.Fail(nil, key, rs.Pos(), "the -S expressions are not chained in the order they were given (the loop does not range over the slice of the occurrences the function receives): with the keys sorted, -S 'n=sequence.Len()' -S 'm=annotations.n*2' evaluates m first, fails on every record and writes none, exit 0")
					return true
				})
			})
		},
	})
}


// soMapOrderedArgument: a caller of fd (in its package) gives for the parameter o the result of a package function that appends to
// the slice it returns inside a loop ranging over a map; returns the name of that function, or "".
func soMapOrderedArgument(c *Ctx, p *packages.Package, fd *ast.FuncDecl, o types.Object) string {
	info := p.TypesInfo
	idx, k := -1, 0
	for _, fl := range fd.Type.Params.List {
		for _, nm := range fl.Names {
			if info.ObjectOf(nm) == o {
				idx = k
			}
			k++
		}
	}
	bad := ""
	for _, f := range p.Syntax {
		ast.Inspect(f, func(n ast.Node) bool {
			call, ok := n.(*ast.CallExpr)
			if !ok || idx < 0 || idx >= len(call.Args) || callee(info, call) == nil || callee(info, call) != info.Defs[fd.Name] {
				return true
			}
			src, ok := ast.Unparen(call.Args[idx]).(*ast.CallExpr)
			if !ok {
				return true
			}
			fn := callee(info, src)
			if fn == nil {
				return true
			}
			d, dp := c.DeclOf(fn)
			if d == nil || d.Body == nil {
				return true
			}
			di := dp.TypesInfo
			ast.Inspect(d.Body, func(m ast.Node) bool {
				rs, ok := m.(*ast.RangeStmt)
				if !ok {
					return true
				}
				if _, isMap := di.TypeOf(rs.X).Underlying().(*types.Map); !isMap {
					return true
				}
				ast.Inspect(rs.Body, func(q ast.Node) bool {
					if c2, ok := q.(*ast.CallExpr); ok {
						if id, ok := c2.Fun.(*ast.Ident); ok && id.Name == "append" {
							bad = fn.Name()
						}
					}
					return true
				})
				return true
			})
			return true
		})
	}
	return bad
}
