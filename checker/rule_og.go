package main

// OG — option guard/use coherence in CLI predicate and worker builders (C16).

import (
	"fmt"
	"go/ast"
	"go/types"
	"sort"
	"strings"

	"golang.org/x/tools/go/packages"
)

func init() {
	register(&Rule{
		ID: "OG", Props: []string{"C16"}, Min: 17,
		Doc: `guard/use coherence: in the builders of pkg/obitools/* that return a SequencePredicate or a SeqWorker, every if-statement whose condition tests package-level option
variables (directly or through a trivial accessor 'func() T { return _opt }') and whose guarded block reads option variables must read at least one of the tested ones:
a block that builds its criterion from other options only is a criterion honoured when an unrelated option is given.`,
		Run: runOG,
	})
}

// accessorMap maps every plain function of the package to the set of
// package-level variables its body reads, transitively through same-package calls.
func accessorMap(p *packages.Package) map[types.Object]map[types.Object]bool {
	direct := map[types.Object]map[types.Object]bool{}
	calls := map[types.Object]map[types.Object]bool{}
	for _, f := range p.Syntax {
		for _, d := range f.Decls {
			fd, ok := d.(*ast.FuncDecl)
			if !ok || fd.Body == nil || fd.Recv != nil {
				continue
			}
			self := p.TypesInfo.Defs[fd.Name]
			direct[self] = map[types.Object]bool{}
			calls[self] = map[types.Object]bool{}
			ast.Inspect(fd.Body, func(n ast.Node) bool {
				if id, ok := n.(*ast.Ident); ok {
					switch o := p.TypesInfo.Uses[id].(type) {
					case *types.Var:
						if o.Parent() == p.Types.Scope() {
							direct[self][o] = true
						}
					case *types.Func:
						if o.Pkg() == p.Types {
							calls[self][o] = true
						}
					}
				}
				return true
			})
		}
	}
	changed := true
	for changed {
		changed = false
		for f, cs := range calls {
			for g := range cs {
				for v := range direct[g] {
					if !direct[f][v] {
						direct[f][v] = true
						changed = true
					}
				}
			}
		}
	}
	return direct
}

func optionVarsIn(p *packages.Package, acc map[types.Object]map[types.Object]bool, n ast.Node) map[types.Object]bool {
	out := map[types.Object]bool{}
	ast.Inspect(n, func(m ast.Node) bool {
		id, ok := m.(*ast.Ident)
		if !ok {
			return true
		}
		o := p.TypesInfo.Uses[id]
		if o == nil {
			return true
		}
		if v, ok := o.(*types.Var); ok && v.Parent() == p.Types.Scope() {
			out[v] = true
		}
		for v := range acc[o] {
			out[v] = true
		}
		return true
	})
	return out
}

func builderResult(fd *ast.FuncDecl, info *types.Info) bool {
	if fd.Type.Results == nil {
		return false
	}
	for _, r := range fd.Type.Results.List {
		if tv, ok := info.Types[r.Type]; ok {
			switch namedTypeName(tv.Type) {
			case modPath + "/pkg/obiseq.SequencePredicate", modPath + "/pkg/obiseq.SeqWorker":
				return true
			}
		}
	}
	return false
}

func names(m map[types.Object]bool) string {
	var l []string
	for o := range m {
		l = append(l, o.Name())
	}
	sort.Strings(l)
	return strings.Join(l, ",")
}

func runOG(c *Ctx, s *Sink) {
	c.EachFunc([]string{"pkg/obitools"}, func(p *packages.Package, fd *ast.FuncDecl) {
		if !builderResult(fd, p.TypesInfo) {
			return
		}
		acc := accessorMap(p)
		fname := funcName(p, fd)
		n := 0
		ast.Inspect(fd.Body, func(m ast.Node) bool {
			ifs, ok := m.(*ast.IfStmt)
			if !ok {
				return true
			}
			cond := optionVarsIn(p, acc, ifs.Cond)
			if len(cond) == 0 {
				return true
			}
			used := optionVarsIn(p, acc, ifs.Body)
			if len(used) == 0 {
				return true
			}
			n++
			key := fmt.Sprintf("%s:if#%d(%s)", fname, n, names(cond))
			common := false
			for o := range cond {
				if used[o] {
					common = true
				}
			}
			if common {
				s.Pass(nil, key, ifs.Pos(), "guarded block uses the tested option")
			} else {
				s.Fail(nil, key, ifs.Pos(), fmt.Sprintf("the block guarded by option(s) %s builds its criterion from %s only: that criterion is applied when an unrelated option is given and ignored when its own option is given alone", names(cond), names(used)))
			}
			return true
		})
	})
}
