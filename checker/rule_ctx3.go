package main

// CTX-3 — composite category values and the keys of the statistics maps are named as they are written (C06).

import (
	"fmt"
	"go/ast"
	"go/types"
	"strings"

	"golang.org/x/tools/go/packages"
)

func init() {
	register(&Rule{
		ID: "CTX-3", Props: []string{"C06"}, Min: 3,
		Doc: `"exactly one record per distinct key … independent of in-memory or on-disk mode; every merged_<attribute> map gives per value the summed weight": (1) in obiseq.CategoryText the fallback
through package fmt is only reached after a test of the kind of the value (map, slice, array — the kind predicates of obiutils) whose branch returns the text of a JSON conversion: fmt prints
["ab cd"] and ["ab","cd"] alike (one class for two values) and keeps invalid bytes that the writers replace (two classes in memory, one on disk). (2) in pkg/obiseq/merge.go, a store into a
statistics map under a key that comes from ranging over another map (StatsOnValues.Merge, the conversion of a parsed map in StatsOn) names that key through the function the classifiers use for
strings (writtenText): on raw bytes {"z\xff":2} and {"z\xfe":3} merged into an object holding the key "z�" twice, and obidemerge returned 3 reads of 5.`,
		Run: func(c *Ctx, s *Sink) {
			// (1)
			key := "pkg/obiseq.CategoryText:composite-values-through-JSON"
			fd, p := c.FindFunc("pkg/obiseq", "CategoryText")
			if fd == nil {
				s.Undecided(nil, key, 0, "function not found")
			} else {
				info := p.TypesInfo
				kinds, jsonRet := false, false
				ast.Inspect(fd.Body, func(n ast.Node) bool {
					is, ok := n.(*ast.IfStmt)
					if !ok {
						return true
					}
					k := 0
					ast.Inspect(is.Cond, func(m ast.Node) bool {
						if call, ok := m.(*ast.CallExpr); ok {
							switch callee(info, call).Name() {
							case "IsAMap", "IsASlice", "IsAnArray":
								k++
							}
						}
						return true
					})
					if k >= 2 {
						kinds = true
						ast.Inspect(is.Body, func(m ast.Node) bool {
							if call, ok := m.(*ast.CallExpr); ok {
								if fn := callee(info, call); fn != nil && (strings.Contains(fn.Name(), "Marshal") || strings.Contains(fn.Name(), "Json") || strings.Contains(fn.Name(), "JSON")) {
									jsonRet = true
								}
							}
							return true
						})
					}
					return true
				})
				if kinds && jsonRet {
					s.Pass(nil, key, fd.Pos(), "maps, slices and arrays are named by their JSON text before the fallback through fmt")
				} else {
					s.Fail(nil, key, fd.Pos(), "a list or a map used as a category value is named by fmt.Sprint: [\"ab cd\"] and [\"ab\",\"cd\"] are one class (obiuniq -c merges records whose values differ), and a string nested in a list keeps its invalid bytes — two classes in memory printed under one key, one class on disk")
				}
			}
			// (2)
			c.EachFunc([]string{"pkg/obiseq"}, func(p *packages.Package, fd *ast.FuncDecl) {
				if !strings.HasSuffix(c.Fset.Position(fd.Pos()).Filename, "/merge.go") {
					return
				}
				info := p.TypesInfo
				n := 0
				ast.Inspect(fd.Body, func(nd ast.Node) bool {
					rs, ok := nd.(*ast.RangeStmt)
					if !ok || rs.Key == nil {
						return true
					}
					mt, isMap := info.TypeOf(rs.X).Underlying().(*types.Map)
					if !isMap {
						return true
					}
					if b, ok := mt.Key().Underlying().(*types.Basic); !ok || b.Kind() != types.String {
						return true
					}
					kobj := rootObj(info, rs.Key)
					if kobj == nil {
						return true
					}
					ast.Inspect(rs.Body, func(m ast.Node) bool {
						as, ok := m.(*ast.AssignStmt)
						if !ok {
							return true
						}
						for _, l := range as.Lhs {
							ix, ok := ast.Unparen(l).(*ast.IndexExpr)
							if !ok {
								continue
							}
							t := info.TypeOf(ix.X)
							if t == nil || !strings.HasSuffix(t.String(), "obiseq.StatsOnValues") {
								continue
							}
							uses := false
							ast.Inspect(ix.Index, func(q ast.Node) bool {
								if id, ok := q.(*ast.Ident); ok && info.ObjectOf(id) == kobj {
									uses = true
								}
								return true
							})
							if !uses {
								continue
							}
							n++
							key := fmt.Sprintf("%s:stats-key#%d:named-as-written", funcName(p, fd), n)
							if call, ok := ast.Unparen(ix.Index).(*ast.CallExpr); ok && callee(info, call) != nil && callee(info, call).Name() == "writtenText" {
								s.Pass(nil, key, as.Pos(), "the key goes through writtenText")
							} else {
								s.Fail(nil, key, as.Pos(), "the weights of a parsed statistics map are added under the raw bytes of its keys: {\"z\\xff\":2} and {\"z\\xfe\":3} give, in memory, one JSON object holding the key \"z\\ufffd\" twice (on disk {\"z\\ufffd\":5}); obidemerge of it returns 3 reads of 5")
							}
						}
						return true
					})
					return true
				})
			})
		},
	})
}
