package main

// RE-3 — open/sniff errors reach a non-zero exit in every command (C17).

import (
	"go/ast"
	"go/types"

	"golang.org/x/tools/go/packages"
)

func init() {
	register(&Rule{
		ID: "RE-3", Props: []string{"C17"}, Min: 20,
		Doc: `open and format-sniffing errors reach a non-zero exit: in every function of cmd/obitools/* and pkg/obitools/* that calls obiconvert.CLIReadBioSequences, the error
result is bound to a variable that is then either handed to obiconvert.OpenSequenceDataErrorMessage (which exits 1), or tested with a diverging branch, or returned — before the
function goes on; it is never blank. Together with RE-1/RE-2 (errors of Ropen/Buf/the guessers are returned) this closes the path from a corrupt header to the exit status.`,
		Run: runRE3,
	})
}

func runRE3(c *Ctx, s *Sink) {
	c.EachFunc([]string{"cmd/obitools", "pkg/obitools"}, func(p *packages.Package, fd *ast.FuncDecl) {
		info := p.TypesInfo
		n := 0
		var visitList func(list []ast.Stmt)
		visitList = func(list []ast.Stmt) {
			for i, st := range list {
				ast.Inspect(st, func(m ast.Node) bool {
					if b, ok := m.(*ast.BlockStmt); ok {
						visitList(b.List)
						return false
					}
					if cc, ok := m.(*ast.CaseClause); ok {
						visitList(cc.Body)
						return false
					}
					return true
				})
				as, ok := st.(*ast.AssignStmt)
				if !ok || len(as.Rhs) != 1 {
					continue
				}
				call, ok := ast.Unparen(as.Rhs[0]).(*ast.CallExpr)
				if !ok || !isCallTo(info, call, "pkg/obitools/obiconvert.CLIReadBioSequences") {
					continue
				}
				n++
				key := funcName(p, fd) + ":CLIReadBioSequences#" + itoa(n)
				var errVar types.Object
				if len(as.Lhs) == 2 {
					if id, ok := as.Lhs[1].(*ast.Ident); ok && id.Name != "_" {
						errVar = info.ObjectOf(id)
					}
				}
				if errVar == nil {
					s.Fail(nil, key, call.Pos(), "the error of CLIReadBioSequences is discarded: an unreadable or corrupt input is processed as an empty stream (nil iterator panics or exit 0)")
					continue
				}
				ok = false
				ast.Inspect(fd.Body, func(m ast.Node) bool {
					if m == nil || m.End() <= as.End() {
						return m != nil
					}
					switch x := m.(type) {
					case *ast.CallExpr:
						if x.Pos() > as.End() && isCallTo(info, x, "pkg/obitools/obiconvert.OpenSequenceDataErrorMessage") {
							for _, a := range x.Args {
								if rootObj(info, a) == errVar {
									ok = true
								}
							}
						}
					case *ast.IfStmt:
						if x.Pos() > as.End() && mentionsVar(info, x.Cond, errVar) && blockDiverges(info, x.Body) {
							ok = true
						}
					case *ast.ReturnStmt:
						if x.Pos() > as.End() {
							for _, r := range x.Results {
								if rootObj(info, r) == errVar {
									ok = true
								}
							}
						}
					}
					return true
				})
				_ = i
				s.Check(ok, nil, key, call.Pos(), "the open error is handed to OpenSequenceDataErrorMessage / tested with a fatal branch / returned", "the error of CLIReadBioSequences is bound but never handled: a corrupt or unreadable input does not stop the command")
			}
		}
		visitList(fd.Body.List)
	})
}
