package main

// QR — the remainder of a division is smaller than the divisor (C20).

import (
	"fmt"
	"go/ast"
	"go/token"
	"go/types"

	"golang.org/x/tools/go/packages"
)

func init() {
	register(&Rule{
		ID: "QR", Props: []string{"C20"}, Min: 1,
		Doc: `"division … return the mathematically exact result": 0 <= remainder < divisor. In pkg/obifp, in a function that corrects a trial quotient — an if whose condition compares r.Cmp(v) with a
constant and whose body replaces r by r.Sub(v) (and increments the quotient) — the condition, evaluated for the three values -1, 0, 1 of Cmp, is false for -1 and true for 0 and 1: when the
correction is not applied, r < v follows. With '> 0' a remainder equal to the divisor is returned (and the quotient is one too small) for every dividend that is a multiple of the divisor the
trial quotient under-estimates.`,
		Run: func(c *Ctx, s *Sink) {
			c.EachFunc([]string{"pkg/obifp"}, func(p *packages.Package, fd *ast.FuncDecl) {
				info := p.TypesInfo
				n := 0
				ast.Inspect(fd.Body, func(nd ast.Node) bool {
					is, ok := nd.(*ast.IfStmt)
					if !ok {
						return true
					}
					b, ok := ast.Unparen(is.Cond).(*ast.BinaryExpr)
					if !ok {
						return true
					}
					call, ok := ast.Unparen(b.X).(*ast.CallExpr)
					k, isC := constInt(info, b.Y)
					if !ok || !isC || len(call.Args) != 1 {
						return true
					}
					sel, ok := call.Fun.(*ast.SelectorExpr)
					if !ok || sel.Sel.Name != "Cmp" {
						return true
					}
					r, v := rootObj(info, sel.X), rootObj(info, call.Args[0])
					if r == nil || v == nil {
						return true
					}
					// the body subtracts v from r
					subs := false
					ast.Inspect(is.Body, func(m ast.Node) bool {
						if as, ok := m.(*ast.AssignStmt); ok && len(as.Lhs) == 1 && len(as.Rhs) == 1 && rootObj(info, as.Lhs[0]) == r {
							if c2, ok := ast.Unparen(as.Rhs[0]).(*ast.CallExpr); ok && len(c2.Args) == 1 {
								if s2, ok := c2.Fun.(*ast.SelectorExpr); ok && s2.Sel.Name == "Sub" && rootObj(info, s2.X) == r && rootObj(info, c2.Args[0]) == v {
									subs = true
								}
							}
						}
						return true
					})
					if !subs {
						return true
					}
					n++
					key := fmt.Sprintf("%s:correction#%d:remainder-below-divisor", funcName(p, fd), n)
					eval := func(x int64) bool {
						switch b.Op {
						case token.GEQ:
							return x >= k
						case token.GTR:
							return x > k
						case token.LEQ:
							return x <= k
						case token.LSS:
							return x < k
						case token.EQL:
							return x == k
						case token.NEQ:
							return x != k
						}
						return false
					}
					if !eval(-1) && eval(0) && eval(1) {
						s.Pass(nil, key, is.Pos(), "the correction is applied exactly when the remainder is not below the divisor")
					} else {
						s.Fail(nil, key, is.Pos(), "the correction of the trial quotient is not applied for every remainder that is not below the divisor (condition "+types.ExprString(is.Cond)+"): a remainder equal to the divisor is returned with a quotient one too small")
					}
					return true
				})
			})
		},
	})
}
