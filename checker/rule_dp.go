package main

// DP — must-depend / write-back rules of the dereplication merge (C06).

import (
	"fmt"
	"go/ast"
	"go/token"
	"go/types"
	"strings"

	"golang.org/x/tools/go/cfg"
	"golang.org/x/tools/go/packages"
)

func init() {
	register(&Rule{
		ID: "DP", Props: []string{"C06"}, Min: 4,
		Doc: `merge accounting: (1) in BioSequence.Merge the value given to SetCount depends on receiver.Count() and tomerge.Count() and SetCount is executed unconditionally;
(2) in StatsPlusOne the stored statistic depends on the old entry and on desc.Weight(toAdd); (3) in StatsOnValues.Merge the stored entry depends on both operands;
(4) in BioSequenceSlice.Merge every element of sequences[1:] is merged into the first on every path of the loop; (5) write-back: StatsOn may return a map that is not the one
stored in the sequence (it converts map[string]interface{} read from a file into a fresh map without storing it), so every function that obtains a map from StatsOn and then
modifies it (element store, Merge) must store it back (SetAttribute / annotation store) after the modification on every path.`,
		Run: runDP,
	})
}

func exprMentionsCall(info *types.Info, e ast.Node, recv types.Object, method string) bool {
	found := false
	ast.Inspect(e, func(n ast.Node) bool {
		if call, ok := n.(*ast.CallExpr); ok {
			if sel, ok := call.Fun.(*ast.SelectorExpr); ok && sel.Sel.Name == method && rootObj(info, sel.X) == recv {
				found = true
			}
		}
		return true
	})
	return found
}

// expand replaces single-definition locals by their definitions (one level of indirection, repeated)
func dependsOn(info *types.Info, defs map[types.Object][]ast.Expr, e ast.Expr, pred func(ast.Node) bool, depth int) bool {
	if e == nil || depth > 5 {
		return false
	}
	if pred(e) {
		return true
	}
	ok := false
	ast.Inspect(e, func(n ast.Node) bool {
		if id, isId := n.(*ast.Ident); isId && !ok {
			for _, d := range defs[info.ObjectOf(id)] {
				if d != nil && d != e && dependsOn(info, defs, d, pred, depth+1) {
					ok = true
				}
			}
		}
		return true
	})
	return ok
}

// collectDefsTuple is collectDefs where every variable of a multi-value assignment is defined by the single right-hand side.
func collectDefsTuple(info *types.Info, root ast.Node) map[types.Object][]ast.Expr {
	defs := collectDefs(info, root)
	ast.Inspect(root, func(n ast.Node) bool {
		if as, ok := n.(*ast.AssignStmt); ok && len(as.Rhs) == 1 && len(as.Lhs) > 1 {
			for _, l := range as.Lhs {
				if o := rootObj(info, l); o != nil {
					var out []ast.Expr
					for _, d := range defs[o] {
						if d != nil {
							out = append(out, d)
						}
					}
					defs[o] = append(out, as.Rhs[0])
				}
			}
		}
		return true
	})
	return defs
}

func runDP(c *Ctx, s *Sink) {
	// (1)
	fd, p := c.FindFunc("pkg/obiseq", "(*BioSequence).Merge")
	key := "pkg/obiseq.(*BioSequence).Merge:count"
	if fd == nil {
		s.Undecided(nil, key, 0, "function not found")
	} else {
		info := p.TypesInfo
		defs := collectDefs(info, fd)
		recv := info.ObjectOf(fd.Recv.List[0].Names[0])
		params := flattenParams(fd.Type.Params)
		other := info.ObjectOf(params[0])
		var setc *ast.CallExpr
		topLevel := false
		for _, st := range fd.Body.List {
			if es, ok := st.(*ast.ExprStmt); ok {
				if call, ok := es.X.(*ast.CallExpr); ok {
					if sel, ok := call.Fun.(*ast.SelectorExpr); ok && sel.Sel.Name == "SetCount" && rootObj(info, sel.X) == recv {
						setc, topLevel = call, true
					}
				}
			}
		}
		if setc == nil {
			ast.Inspect(fd.Body, func(n ast.Node) bool {
				if call, ok := n.(*ast.CallExpr); ok {
					if sel, ok := call.Fun.(*ast.SelectorExpr); ok && sel.Sel.Name == "SetCount" {
						setc = call
					}
				}
				return true
			})
		}
		switch {
		case setc == nil:
			s.Fail(nil, key, fd.Pos(), "the merged record's count is never set")
		case !topLevel:
			s.Fail(nil, key, setc.Pos(), "SetCount is executed only under a condition: on the other paths the count of the merged record is lost")
		default:
			a := dependsOn(info, defs, setc.Args[0], func(n ast.Node) bool { return exprMentionsCall(info, n, recv, "Count") }, 0)
			b := dependsOn(info, defs, setc.Args[0], func(n ast.Node) bool { return exprMentionsCall(info, n, other, "Count") }, 0)
			s.Check(a && b, nil, key, setc.Pos(), "count = receiver.Count() + tomerge.Count(), set unconditionally",
				fmt.Sprintf("the value given to SetCount does not depend on both counts (receiver: %v, merged: %v): the total count is not conserved", a, b))
		}
	}
	// (2) and (3): element stores depending on two sources
	type twoDep struct {
		fn, key string
		a, b    func(info *types.Info, fd *ast.FuncDecl) func(ast.Node) bool
	}
	checks := []twoDep{
		{"(*BioSequence).StatsPlusOne", "pkg/obiseq.(*BioSequence).StatsPlusOne:increment",
			func(info *types.Info, fd *ast.FuncDecl) func(ast.Node) bool {
				return func(n ast.Node) bool { // old entry: an index expression on the stats map
					m := false
					ast.Inspect(n, func(k ast.Node) bool {
						if ix, ok := k.(*ast.IndexExpr); ok && strings.Contains(types.ExprString(ix.X), "stats") {
							m = true
						}
						return true
					})
					return m
				}
			},
			func(info *types.Info, fd *ast.FuncDecl) func(ast.Node) bool {
				return func(n ast.Node) bool {
					m := false
					ast.Inspect(n, func(k ast.Node) bool {
						if call, ok := k.(*ast.CallExpr); ok {
							if sel, ok := call.Fun.(*ast.SelectorExpr); ok && sel.Sel.Name == "Weight" {
								m = true
							}
						}
						return true
					})
					return m
				}
			}},
		{"(StatsOnValues).Merge", "pkg/obiseq.(StatsOnValues).Merge:sum",
			func(info *types.Info, fd *ast.FuncDecl) func(ast.Node) bool {
				recv := info.ObjectOf(fd.Recv.List[0].Names[0])
				return func(n ast.Node) bool {
					m := false
					ast.Inspect(n, func(k ast.Node) bool {
						if ix, ok := k.(*ast.IndexExpr); ok && rootObj(info, ix.X) == recv {
							m = true
						}
						return true
					})
					return m
				}
			},
			func(info *types.Info, fd *ast.FuncDecl) func(ast.Node) bool {
				// the value variable of the range over the argument map
				var val types.Object
				if params := flattenParams(fd.Type.Params); len(params) == 1 && params[0] != nil {
					arg := info.ObjectOf(params[0])
					ast.Inspect(fd.Body, func(k ast.Node) bool {
						if rs, ok := k.(*ast.RangeStmt); ok && rootObj(info, rs.X) == arg && rs.Value != nil {
							val = rootObj(info, rs.Value)
						}
						return true
					})
				}
				return func(n ast.Node) bool {
					m := false
					ast.Inspect(n, func(k ast.Node) bool {
						if id, ok := k.(*ast.Ident); ok && val != nil && info.ObjectOf(id) == val {
							m = true
						}
						return true
					})
					return m
				}
			}},
	}
	for _, ck := range checks {
		fd, p := c.FindFunc("pkg/obiseq", ck.fn)
		if fd == nil {
			s.Undecided(nil, ck.key, 0, "function not found")
			continue
		}
		info := p.TypesInfo
		defs := collectDefsTuple(info, fd)
		var store *ast.AssignStmt
		compound := false
		ast.Inspect(fd.Body, func(n ast.Node) bool {
			if as, ok := n.(*ast.AssignStmt); ok && len(as.Lhs) == 1 && len(as.Rhs) == 1 {
				if _, isIdx := ast.Unparen(as.Lhs[0]).(*ast.IndexExpr); isIdx {
					if b, isBin := ast.Unparen(as.Rhs[0]).(*ast.BinaryExpr); isBin && b.Op == token.ADD && as.Tok == token.ASSIGN {
						store = as
					}
					if as.Tok == token.ADD_ASSIGN { // stats[k] += w : the old entry (0 when absent) is an operand by construction
						store, compound = as, true
					}
				}
			}
			return true
		})
		if store == nil {
			s.Fail(nil, ck.key, fd.Pos(), "no store of 'old + weight' into the statistics map: the weights of merged records are not accumulated")
			continue
		}
		a := compound || dependsOn(info, defs, store.Rhs[0], ck.a(info, fd), 0)
		b := dependsOn(info, defs, store.Rhs[0], ck.b(info, fd), 0)
		s.Check(a && b, nil, ck.key, store.Pos(), "stored statistic = old entry + added weight", fmt.Sprintf("the stored statistic does not depend on both the old entry (%v) and the added weight (%v)", a, b))
	}
	// (4) every element merged
	fd, p = c.FindFunc("pkg/obiseq", "(BioSequenceSlice).Merge")
	key = "pkg/obiseq.(BioSequenceSlice).Merge:loop"
	if fd == nil {
		s.Undecided(nil, key, 0, "function not found")
	} else {
		info := p.TypesInfo
		// the loop over the other members of the class: `for _, x := range sequences[1:]` or
		// `for i := 1; i < len(sequences); i++` with sequences[i]
		recv := info.ObjectOf(fd.Recv.List[0].Names[0])
		var loop ast.Stmt
		var loopBody *ast.BlockStmt
		var isElem func(e ast.Expr) bool
		ast.Inspect(fd.Body, func(n ast.Node) bool {
			if loop != nil {
				return true
			}
			switch r := n.(type) {
			case *ast.RangeStmt:
				if sl, isSlice := ast.Unparen(r.X).(*ast.SliceExpr); isSlice && rootObj(info, sl.X) == recv && r.Value != nil {
					elem := info.ObjectOf(r.Value.(*ast.Ident))
					loop, loopBody = r, r.Body
					isElem = func(e ast.Expr) bool { return rootObj(info, e) == elem }
				}
			case *ast.ForStmt:
				init, ok := r.Init.(*ast.AssignStmt)
				if !ok || len(init.Lhs) != 1 || len(init.Rhs) != 1 || !isConstInt(info, init.Rhs[0], 1) {
					return true
				}
				iv := rootObj(info, init.Lhs[0])
				cond, ok := ast.Unparen(r.Cond).(*ast.BinaryExpr)
				if !ok || cond.Op != token.LSS || rootObj(info, cond.X) != iv {
					return true
				}
				if call, ok := ast.Unparen(cond.Y).(*ast.CallExpr); !ok || len(call.Args) != 1 || rootObj(info, call.Args[0]) != recv {
					return true
				}
				if post, ok := r.Post.(*ast.IncDecStmt); !ok || post.Tok != token.INC || rootObj(info, post.X) != iv {
					return true
				}
				loop, loopBody = r, r.Body
				isElem = func(e ast.Expr) bool {
					ix, ok := ast.Unparen(e).(*ast.IndexExpr)
					return ok && rootObj(info, ix.X) == recv && rootObj(info, ix.Index) == iv
				}
			}
			return true
		})
		if loop == nil {
			s.Undecided(nil, key, fd.Pos(), "no loop over the members of the class after the first")
		} else {
			// a local bound to the element inside the body (toMerge := sequences[i])
			alias := map[types.Object]bool{}
			ast.Inspect(loopBody, func(n ast.Node) bool {
				if as, ok := n.(*ast.AssignStmt); ok && len(as.Lhs) == 1 && len(as.Rhs) == 1 && isElem(as.Rhs[0]) {
					if o := rootObj(info, as.Lhs[0]); o != nil {
						alias[o] = true
					}
				}
				return true
			})
			g := buildCFG(info, fd.Body)
			ts := &typestate{g: g, init: 0, info: info,
				events: func(n ast.Node) []tsEvent {
					var evs []tsEvent
					if !(n.Pos() >= loopBody.Pos() && n.End() <= loopBody.End()) {
						return nil
					}
					visitEval(n, func(m ast.Node) {
						if call, ok := m.(*ast.CallExpr); ok {
							if sel, ok := call.Fun.(*ast.SelectorExpr); ok && sel.Sel.Name == "Merge" && len(call.Args) > 0 && (isElem(call.Args[0]) || alias[rootObj(info, call.Args[0])]) {
								evs = append(evs, tsEvent{kind: "merge", node: m})
							}
						}
					})
					return evs
				},
				step: func(st int, ev tsEvent) (int, string) {
					if st == 1 {
						return 2, ""
					}
					return st, ""
				},
				edge: func(b *cfg.Block, succ int, st int) int {
					if (b.Kind == cfg.KindRangeLoop || b.Kind == cfg.KindForLoop) && b.Stmt == loop {
						if st == 1 || st == 3 {
							return 3
						}
						if succ == 0 {
							return 1
						}
						return 0
					}
					return st
				}}
			res := ts.run()
			s.Check(res.exitStates&(1<<3) == 0, nil, key, loop.Pos(), "every member of the class after the first is merged on every path", "a path of the loop skips an element of the class without merging it: its count and statistics are lost")
		}
	}
	// (5) write-back
	c.EachFunc([]string{"pkg/obiseq"}, func(p *packages.Package, fd *ast.FuncDecl) {
		info := p.TypesInfo
		// locals obtained from X.StatsOn(...)
		type got struct {
			v    types.Object
			recv types.Object
			pos  token.Pos
		}
		var gots []got
		ast.Inspect(fd.Body, func(n ast.Node) bool {
			if as, ok := n.(*ast.AssignStmt); ok && len(as.Lhs) == 1 && len(as.Rhs) == 1 {
				if call, ok := ast.Unparen(as.Rhs[0]).(*ast.CallExpr); ok {
					if sel, ok := call.Fun.(*ast.SelectorExpr); ok && sel.Sel.Name == "StatsOn" && strings.HasSuffix(fullName(callee(info, call)), "/pkg/obiseq.(BioSequence).StatsOn") {
						if v := rootObj(info, as.Lhs[0]); v != nil {
							gots = append(gots, got{v, rootObj(info, sel.X), as.Pos()})
						}
					}
				}
			}
			return true
		})
		for _, g := range gots {
			// modified?
			modPos := token.NoPos
			ast.Inspect(fd.Body, func(n ast.Node) bool {
				switch x := n.(type) {
				case *ast.AssignStmt:
					for _, l := range x.Lhs {
						if ix, ok := ast.Unparen(l).(*ast.IndexExpr); ok && rootObj(info, ix.X) == g.v {
							modPos = x.Pos()
						}
					}
				case *ast.CallExpr:
					if sel, ok := x.Fun.(*ast.SelectorExpr); ok && sel.Sel.Name == "Merge" && rootObj(info, sel.X) == g.v {
						modPos = x.Pos()
					}
				}
				return true
			})
			if modPos == token.NoPos {
				continue
			}
			key := fmt.Sprintf("%s:writeback:%s", funcName(p, fd), g.v.Name())
			// stored back after the modification: SetAttribute(_, v) on the same receiver, or annotation store whose rhs mentions v
			stored := false
			for _, st := range fd.Body.List {
				ast.Inspect(st, func(n ast.Node) bool {
					switch x := n.(type) {
					case *ast.CallExpr:
						if sel, ok := x.Fun.(*ast.SelectorExpr); ok && sel.Sel.Name == "SetAttribute" && len(x.Args) == 2 && rootObj(info, x.Args[1]) == g.v && x.Pos() >= modPos {
							stored = true
						}
					case *ast.AssignStmt:
						if len(x.Lhs) == 1 && len(x.Rhs) == 1 && x.End() >= modPos {
							if _, isIdx := ast.Unparen(x.Lhs[0]).(*ast.IndexExpr); isIdx && mentionsVar(info, x.Rhs[0], g.v) && rootObj(info, ast.Unparen(x.Lhs[0]).(*ast.IndexExpr).X) != g.v {
								stored = true
							}
						}
					}
					return true
				})
			}
			s.Check(stored, nil, key, modPos, "the modified statistics map is stored back into the sequence",
				"the map obtained from StatsOn is modified but never stored back: when StatsOn had to convert a map read from a file (map[string]interface{}) the update is made on a private copy and lost — the merged_* weights of records merged after an already dereplicated one are missing")
		}
	})
}
