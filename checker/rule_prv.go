package main

// PRV — what a previous run of the command wrote on a record is not part of this run (C16, C12).

import (
	"fmt"
	"go/ast"
	"go/constant"
	"go/token"
	"strings"

	"golang.org/x/tools/go/packages"
)

func init() {
	register(&Rule{
		ID: "PRV", Props: []string{"C16"}, Min: 2,
		Doc: `"the unidentified-reads file of obimultiplex route[s] every record to exactly one output chosen from the record alone" — the record as THIS run annotates it. obimultiplex routes on the mere
presence of obimultiplex_error (obiseq.HasAttribute), and the amplicons inherit the annotations of the read they are cut from. Every function of pkg/obingslibrary that extracts barcodes from a read
(Extract…Barcode with a *BioSequence parameter, not a mere wrapper of another one) first removes the attributes of that family — a DeleteAttribute of the key, or a deletion under a test of the
prefix "obimultiplex_", itself or through a package helper it calls. Without it, the reads left unidentified with the library of one marker and given to the library of another come out, sample
assigned, in the unidentified file (97 of 100 wolf reads), or are dropped silently without -u.`,
		Run: func(c *Ctx, s *Sink) {
			p := c.Pkg("pkg/obingslibrary")
			if p == nil {
				s.Undecided(nil, "pkg/obingslibrary", 0, "package not loaded")
				return
			}
			info := p.TypesInfo
			// functions of the package that forget the family
			forgets := map[string]bool{}
			for _, f := range p.Syntax {
				for _, d := range f.Decls {
					fd, ok := d.(*ast.FuncDecl)
					if !ok || fd.Body == nil {
						continue
					}
					deletes, names := false, false
					ast.Inspect(fd.Body, func(n ast.Node) bool {
						switch y := n.(type) {
						case *ast.CallExpr:
							if id, ok := y.Fun.(*ast.Ident); ok && id.Name == "delete" {
								deletes = true
							}
							if sel, ok := y.Fun.(*ast.SelectorExpr); ok && sel.Sel.Name == "DeleteAttribute" {
								deletes = true
							}
						case *ast.BasicLit:
							if y.Kind == token.STRING {
								if tv, ok := info.Types[y]; ok && tv.Value != nil && strings.HasPrefix(constant.StringVal(tv.Value), "obimultiplex_") {
									names = true
								}
							}
						}
						return true
					})
					if deletes && names {
						forgets[fd.Name.Name] = true
					}
				}
			}
			c.EachFunc([]string{"pkg/obingslibrary"}, func(p2 *packages.Package, fd *ast.FuncDecl) {
				if !strings.HasPrefix(fd.Name.Name, "Extract") || !strings.Contains(fd.Name.Name, "Barcode") || strings.Contains(fd.Name.Name, "Worker") {
					return
				}
				// a parameter of type *BioSequence
				has := false
				for _, id := range flattenParams(fd.Type.Params) {
					if id != nil && strings.HasSuffix(info.TypeOf(id).String(), "/pkg/obiseq.BioSequence") {
						has = true
					}
				}
				if !has {
					return
				}
				// a wrapper: its body only returns the call of another extractor
				wrapper := false
				var first token.Pos
				calls := false
				ast.Inspect(fd.Body, func(n ast.Node) bool {
					if call, ok := n.(*ast.CallExpr); ok {
						if fn := callee(info, call); fn != nil {
							if fn.Pkg() == p.Types && strings.HasPrefix(fn.Name(), "Extract") && strings.Contains(fn.Name(), "Barcode") && fn.Name() != fd.Name.Name || fn.Name() == fd.Name.Name && fn != info.Defs[fd.Name] {
								wrapper = true
							}
							if fn.Pkg() == p.Types && forgets[fn.Name()] {
								calls = true
							}
							if strings.HasSuffix(fullName(fn), "/pkg/obiseq.(BioSequence).Subsequence") && !first.IsValid() {
								first = call.Pos()
							}
						}
					}
					return true
				})
				if forgets[fd.Name.Name] {
					calls = true
				}
				if wrapper && !calls {
					return
				}
				key := fmt.Sprintf("%s:previous-run-forgotten", funcName(p2, fd))
				if calls {
					s.Pass(nil, key, fd.Pos(), "the attributes of a previous demultiplexing are removed before the read is analysed")
				} else {
					s.Fail(nil, key, fd.Pos(), "the read is analysed with what a previous run wrote on it: the amplicons inherit obimultiplex_error, on the presence of which the command routes — obimultiplex -t markerB.ngs unidentified_of_markerA.fasta sends the amplicon it identifies (\"sample\":\"13a_F730603\") to the unidentified file, or drops it without -u, exit 0")
				}
			})
		},
	})
}
