package main

// IXB — the index of a reference records every distance a query can be assigned at (C15).

import (
	"go/ast"
	"go/token"
	"go/types"
	"math"
)

func init() {
	register(&Rule{
		ID: "IXB", Props: []string{"C15"}, Min: 1,
		Doc: `"the index built for a reference maps each recorded distance to the LCA of all references within that distance": obitag accepts a best match whose identity is at least 0.5, i.e. up to
d = len(reference) differences (lcs = len, alignment = 2·len), and resolves d to the largest recorded key <= d. In obirefidx.IndexSequence the levels are recorded while their distance is strictly
below a running bound: its initial value must exceed the length of the indexed sequence (by linear arithmetic: bound − len(sequence) >= 1), otherwise the level lying exactly at len(sequence)
is never recorded — R of 20 bases and S = R + 20 g: the index of S holds 20 → order, the index of R does not, and a query at distance 20 of R is assigned to the species of R.`,
		Run: func(c *Ctx, s *Sink) {
			fd, p := c.FindFunc("pkg/obitools/obirefidx", "IndexSequence")
			key := "pkg/obitools/obirefidx.IndexSequence:bound-exceeds-length"
			if fd == nil {
				s.Undecided(nil, key, 0, "function not found")
				return
			}
			info := p.TypesInfo
			// the loop recording the levels: a range loop with 'if … d < B' whose body stores into a map and assigns B = d
			var bound types.Object
			var at token.Pos
			ast.Inspect(fd.Body, func(n ast.Node) bool {
				ifs, ok := n.(*ast.IfStmt)
				if !ok {
					return true
				}
				for _, cj := range conjuncts(ifs.Cond) {
					b, ok := ast.Unparen(cj).(*ast.BinaryExpr)
					if !ok || (b.Op != token.LSS && b.Op != token.LEQ) {
						continue
					}
					bo, do := rootObj(info, b.Y), rootObj(info, b.X)
					if bo == nil || do == nil {
						continue
					}
					// B = d in the body
					ast.Inspect(ifs.Body, func(m ast.Node) bool {
						if as, ok := m.(*ast.AssignStmt); ok && len(as.Lhs) == 1 && len(as.Rhs) == 1 && as.Tok == token.ASSIGN &&
							rootObj(info, as.Lhs[0]) == bo && rootObj(info, as.Rhs[0]) == do {
							bound, at = bo, ifs.Pos()
						}
						return true
					})
				}
				return true
			})
			if bound == nil {
				s.Pass(nil, key, fd.Pos(), "the levels are recorded without a running upper bound")
				return
			}
			// a bound that starts at the largest int lets every distance through
			for _, st := range fd.Body.List {
				if as, ok := st.(*ast.AssignStmt); ok && as.Tok == token.DEFINE && len(as.Lhs) == 1 && len(as.Rhs) == 1 {
					if id, ok := as.Lhs[0].(*ast.Ident); ok && info.ObjectOf(id) == bound {
						if v, isC := constInt(info, as.Rhs[0]); isC && v == math.MaxInt64 {
							s.Pass(nil, key, at, "the bound starts at the largest int: every level is recorded")
							return
						}
					}
				}
			}
			// initial value of the bound, by linear arithmetic over the statements of the body up to the loop
			env := &linEnv{info: info, vars: map[types.Object]linForm{}, defs: map[types.Object][]ast.Expr{}, atoms: map[string]bool{}, lens: map[string]bool{}, elems: map[string]linForm{}}
			var seqLen ast.Expr
			ast.Inspect(fd.Body, func(n ast.Node) bool {
				if call, ok := n.(*ast.CallExpr); ok && seqLen == nil {
					if sel, ok := call.Fun.(*ast.SelectorExpr); ok && sel.Sel.Name == "Len" && len(call.Args) == 0 {
						if o := rootObj(info, sel.X); o != nil && o.Name() == "sequence" {
							seqLen = call
						}
					}
				}
				return true
			})
			if seqLen == nil {
				s.Undecided(nil, key, at, "length of the indexed sequence not found")
				return
			}
			ok, reached := true, false
			var pre []ast.Stmt
			for _, st := range fd.Body.List {
				if st.Pos() <= at && at < st.End() {
					break
				}
				// loops that do not assign the bound are skipped (their variables are unrelated)
				switch st.(type) {
				case *ast.RangeStmt, *ast.ForStmt:
					continue
				}
				pre = append(pre, st)
			}
			for _, pth := range linWalk([]linPath{{env: env}}, pre, func(linPath, ast.Stmt) {}) {
				reached = true
				pth.env.cur = pth.sys
				b, ok1 := pth.env.vars[bound]
				l, ok2 := pth.env.form(seqLen, 0)
				if !ok1 || !ok2 || !pth.known().entails(linLE(l.add(lfConst(1), 1), b)) {
					ok = false
				}
			}
			if ok && reached {
				s.Pass(nil, key, at, "the initial bound exceeds the length of the indexed sequence: the level at d = len is recorded")
			} else {
				s.Fail(nil, key, at, "the levels are recorded only below a bound that starts at the length of the indexed sequence: a reference of another taxon lying at exactly len(sequence) differences (identity 0.5, accepted by obitag) is never recorded — R = 20 bases (species 111), S = R + 20 g (species 211): index(S) = {0: species, 20: order}, index(R) = {0: species}; a query at distance 20 of R is assigned to species 111 instead of the order")
			}
		},
	})
}
