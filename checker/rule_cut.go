package main

// CUT — obiannotate --cut: a negative position designates the same base as a start and as an end (C16).

import (
	"go/ast"
	"go/token"
	"go/types"
	"strings"
)

func init() {
	register(&Rule{
		ID: "CUT", Props: []string{"C16"}, Min: 1,
		Doc: `"obiannotate applies every requested edit (… cut)", at the boundaries of the option values: --cut=a:b keeps the bases a..b, 1-based and inclusive, a negative position counting from the
end (-1 is the last base). In obiannotate.CutSequenceWorker the worker computes the two bounds it hands to Subsequence (0-based start, exclusive end) from the two captured positions; when both
are the same negative position -k (with k at most the length of the sequence) the window must be exactly one base: end − start = 1 on every path, by linear arithmetic over the branches of the
worker. With start = len + from + 1 the window is empty: --cut=-1:-1 discards every record ("from: 13 greater than to: 13"), --cut=-5:-1 keeps 4 bases and --cut=-13:-1 loses the first base of a
13 nt read, while -k as an end does designate the k-th base from the end.`,
		Run: func(c *Ctx, s *Sink) {
			fd, p := c.FindFunc("pkg/obitools/obiannotate", "CutSequenceWorker")
			key := "pkg/obitools/obiannotate.CutSequenceWorker:negative-position-one-base"
			if fd == nil {
				s.Undecided(nil, key, 0, "function not found")
				return
			}
			info := p.TypesInfo
			params := flattenParams(fd.Type.Params)
			if len(params) < 2 {
				s.Undecided(nil, key, fd.Pos(), "parameters not found")
				return
			}
			from, to := info.ObjectOf(params[0]), info.ObjectOf(params[1])
			// the worker: the function literal calling Subsequence
			var lit *ast.FuncLit
			var sub *ast.CallExpr
			ast.Inspect(fd.Body, func(n ast.Node) bool {
				l, ok := n.(*ast.FuncLit)
				if !ok {
					return true
				}
				ast.Inspect(l.Body, func(m ast.Node) bool {
					if call, ok := m.(*ast.CallExpr); ok && strings.HasSuffix(fullName(callee(info, call)), "BioSequence).Subsequence") && len(call.Args) == 3 {
						lit, sub = l, call
					}
					return true
				})
				return true
			})
			if lit == nil {
				s.Undecided(nil, key, fd.Pos(), "no worker calling Subsequence")
				return
			}
			var fromId, toId *ast.Ident
			var lenCall ast.Expr
			ast.Inspect(lit.Body, func(n ast.Node) bool {
				switch x := n.(type) {
				case *ast.Ident:
					if info.Uses[x] == from && fromId == nil {
						fromId = x
					}
					if info.Uses[x] == to && toId == nil {
						toId = x
					}
				case *ast.CallExpr:
					if sel, ok := x.Fun.(*ast.SelectorExpr); ok && sel.Sel.Name == "Len" && len(x.Args) == 0 && lenCall == nil {
						lenCall = x
					}
				}
				return true
			})
			if fromId == nil || toId == nil || lenCall == nil {
				s.Undecided(nil, key, lit.Pos(), "the worker does not read both positions and the length of the sequence")
				return
			}
			env := &linEnv{info: info, vars: map[types.Object]linForm{}, defs: map[types.Object][]ast.Expr{}, atoms: map[string]bool{}, lens: map[string]bool{}, elems: map[string]linForm{}}
			start := linPath{env: env}
			ff, ok1 := env.form(fromId, 0)
			tf, ok2 := env.form(toId, 0)
			L, ok3 := env.form(lenCall, 0)
			if !ok1 || !ok2 || !ok3 {
				s.Undecided(nil, key, lit.Pos(), "positions not linear")
				return
			}
			// from == to == -k, 1 <= k <= len
			start.sys = append(start.sys, linLE(ff, tf), linLE(tf, ff), linLE(ff, lfConst(-1)), linLE(L.scale(-1), ff))
			n, bad := 0, ""
			linWalk([]linPath{start}, lit.Body.List, func(pth linPath, st ast.Stmt) {
				found := false
				ast.Inspect(st, func(m ast.Node) bool {
					if m == ast.Node(sub) {
						found = true
					}
					return true
				})
				if !found {
					return
				}
				n++
				pth.env.cur = pth.sys
				a, oka := pth.env.form(sub.Args[0], 0)
				b, okb := pth.env.form(sub.Args[1], 0)
				if !oka || !okb {
					bad = "bounds not linear"
					return
				}
				d := b.add(a, -1)
				k := pth.known()
				if !k.entails(linLE(d, lfConst(1))) || !k.entails(linLE(lfConst(1), d)) {
					bad = "end − start = " + d.String()
				}
			})
			switch {
			case n == 0:
				s.Undecided(nil, key, sub.Pos(), "the extraction is not reached by the path enumeration")
			case bad != "":
				s.Fail(nil, key, sub.Pos(), "for --cut=-k:-k the window handed to Subsequence is not one base ("+bad+"): a negative position is the k-th base from the end when it is the end of the cut and the (k−1)-th when it is its start — --cut=-1:-1 discards every record, --cut=-5:-1 keeps 4 bases, --cut=-13:-1 drops the first base of a 13 nt read")
			default:
				s.Pass(nil, key, sub.Pos(), "for --cut=-k:-k the window is exactly the k-th base from the end")
			}
			_ = token.NoPos
		},
	})
}
