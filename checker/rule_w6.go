package main

// W-6 — the buffered output wrapper is always closed (C04).

import (
	"go/ast"
	"go/types"
	"strings"

	"golang.org/x/tools/go/packages"
)

func init() {
	register(&Rule{
		ID: "W-6", Props: []string{"C04"}, Min: 3,
		Doc: `the buffered (and possibly compressing) wrapper a writer puts around its output is closed after the last chunk whatever the close option says: obiutils.CompressStream returns a
Wfile holding a bufio.Writer (and a gzip writer); its Close() flushes both and closes the underlying stream only when the close flag passed to CompressStream is set. So every value
obtained from CompressStream must reach a Close() that is not conditioned on anything: called directly, or in a callee that closes the parameter unconditionally or under a boolean
parameter whose argument is the constant true. Conditioning it a second time on the close option leaves the last buffer (everything, for an output under 4 KiB) and the gzip trailer unwritten.`,
		Run: runW6,
	})
}

// closeCondition classifies the Close() calls on obj inside body: "always" when one of them is not nested in a conditional
// statement (an if whose Init holds the call counts as unconditional), "param:<i>" when nested only in `if P` with P a bool
// parameter of fd, "cond" otherwise, "" when there is no Close at all.
func closeConditions(info *types.Info, fd *ast.FuncDecl, body ast.Node, obj types.Object) []string {
	var out []string
	var stack []ast.Node
	ast.Inspect(body, func(n ast.Node) bool {
		if n == nil {
			stack = stack[:len(stack)-1]
			return true
		}
		stack = append(stack, n)
		call, ok := n.(*ast.CallExpr)
		if !ok {
			return true
		}
		sel, ok := ast.Unparen(call.Fun).(*ast.SelectorExpr)
		if !ok || sel.Sel.Name != "Close" {
			return true
		}
		id, ok := ast.Unparen(sel.X).(*ast.Ident)
		if !ok || info.ObjectOf(id) != obj {
			return true
		}
		verdict := "always"
		for i := len(stack) - 2; i >= 0; i-- {
			switch a := stack[i].(type) {
			case *ast.IfStmt:
				if i+1 < len(stack) && stack[i+1] == a.Init {
					continue
				}
				if i+1 < len(stack) && stack[i+1] == ast.Node(a.Cond) {
					continue
				}
				if cid, ok := ast.Unparen(a.Cond).(*ast.Ident); ok && verdict == "always" && i+1 < len(stack) && stack[i+1] == ast.Node(a.Body) {
					if k, _ := paramIndex(info, fd, info.ObjectOf(cid)); k >= 0 {
						verdict = "param:" + itoa(k)
						continue
					}
				}
				verdict = "cond"
			case *ast.SwitchStmt, *ast.TypeSwitchStmt, *ast.SelectStmt, *ast.ForStmt, *ast.RangeStmt:
				verdict = "cond"
			}
		}
		out = append(out, verdict)
		return true
	})
	return out
}


func runW6(c *Ctx, s *Sink) {
	c.EachFunc([]string{"pkg", "cmd"}, func(p *packages.Package, fd *ast.FuncDecl) {
		info := p.TypesInfo
		ast.Inspect(fd.Body, func(n ast.Node) bool {
			as, ok := n.(*ast.AssignStmt)
			if !ok || len(as.Rhs) != 1 || len(as.Lhs) < 1 {
				return true
			}
			call, ok := ast.Unparen(as.Rhs[0]).(*ast.CallExpr)
			if !ok || !strings.HasSuffix(fullName(callee(info, call)), "/pkg/obiutils.CompressStream") {
				return true
			}
			key := funcName(p, fd) + ":wrapper-closed"
			id, ok := ast.Unparen(as.Lhs[0]).(*ast.Ident)
			if !ok || id.Name == "_" {
				s.Undecided(nil, key, as.Pos(), "the wrapper is not bound to a variable")
				return true
			}
			obj := info.ObjectOf(id)
			var why string
			verdicts := w6Verdicts(c, p, fd, obj, 0, &why)
			always := false
			for _, v := range verdicts {
				if v == "always" {
					always = true
				}
			}
			switch {
			case always:
				s.Pass(nil, key, as.Pos(), "the wrapper reaches an unconditional Close()")
			case len(verdicts) == 0:
				s.Fail(nil, key, as.Pos(), "the buffered wrapper returned by CompressStream is never closed: its last buffer and the gzip trailer are never written")
			default:
				if why == "" {
					why = "every Close() on it is conditional"
				}
				s.Fail(nil, key, as.Pos(), "the buffered wrapper returned by CompressStream is closed only conditionally ("+why+"): with the default options (closefile=false) nothing is flushed — an output under 4 KiB stays empty, a longer one is cut at a buffer boundary and the gzip trailer is missing")
			}
			return true
		})
	})
}

// w6Verdicts: how the Close() of the value held by obj is conditioned in fd, following the value into the module functions
// it is handed to (also through a go statement), at most three levels deep. "param:k" refers to the k-th parameter of fd.
func w6Verdicts(c *Ctx, p *packages.Package, fd *ast.FuncDecl, obj types.Object, depth int, why *string) []string {
	info := p.TypesInfo
	verdicts := closeConditions(info, fd, fd.Body, obj)
	if depth > 3 {
		return verdicts
	}
	ast.Inspect(fd.Body, func(m ast.Node) bool {
		cl, ok := m.(*ast.CallExpr)
		if !ok {
			return true
		}
		f := callee(info, cl)
		if f == nil || f.Pkg() == nil || !strings.HasPrefix(f.Pkg().Path(), modPath) {
			return true
		}
		for i, a := range cl.Args {
			aid, ok := ast.Unparen(a).(*ast.Ident)
			if !ok || info.ObjectOf(aid) != obj {
				continue
			}
			d, dp := c.DeclOf(f)
			if d == nil || d.Body == nil {
				continue
			}
			prm := flattenParams(d.Type.Params)
			if i >= len(prm) || prm[i] == nil {
				continue
			}
			for _, v := range w6Verdicts(c, dp, d, dp.TypesInfo.ObjectOf(prm[i]), depth+1, why) {
				if strings.HasPrefix(v, "param:") {
					k := int(v[len("param:")] - '0')
					v = "cond"
					if k < len(cl.Args) {
						arg := ast.Unparen(cl.Args[k])
						if lit, ok := arg.(*ast.Ident); ok && lit.Name == "true" && info.ObjectOf(lit) == types.Universe.Lookup("true") {
							v = "always"
						} else if id, ok := arg.(*ast.Ident); ok {
							if kk, lit := paramIndex(info, fd, info.ObjectOf(id)); kk >= 0 && lit == nil {
								v = "param:" + itoa(kk)
							}
						}
						if v == "cond" {
							*why = c.Pos(cl.Pos()) + ": " + f.Name() + " closes it only when its argument " + types.ExprString(cl.Args[k]) + " is true"
						}
					}
				}
				verdicts = append(verdicts, v)
			}
		}
		return true
	})
	return verdicts
}
