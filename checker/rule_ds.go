package main

// DS — a value stored under a condition is not overwritten unconditionally by the next statement (C06, C02).

import (
	"go/ast"
	"go/parser"
	"go/token"
	"go/types"

	"golang.org/x/tools/go/packages"
)

func init() {
	register(&Rule{
		ID: "DS", Props: []string{"C06", "C02"}, Min: 1,
		Doc: `contradiction rule (no statistics needed): an 'if' without else whose body is a single assignment to some place L, directly followed by an unconditional assignment to the same place L
(as a statement or alone in a bare block) whose right-hand side does not read L, stores a value that nothing can see — one of the two statements is wrong, and a missing 'else' is the usual
reason. In pkg/obiformats and pkg/obiseq: the JSON header parser converted an integral number to int and then put the float64 back, so every number of a JSON header stayed a float64 while the
OBI header parser and the in-memory records hold int: the category value 2759204 is the text 2.759204e+06 for the dereplication when it comes from a JSON header and 2759204 otherwise — two output
records with the same key in memory, one on disk, and obidistribute file names in exponent form. The matcher is exercised on an embedded example on every run.`,
		Run: runDS,
	})
}

// dsFind returns the positions of the overwritten conditional stores of a statement list (recursively).
func dsFind(root ast.Node, same func(a, b ast.Expr) bool, reads func(e ast.Expr, l ast.Expr) bool) []token.Pos {
	var out []token.Pos
	single := func(st ast.Stmt) *ast.AssignStmt {
		if b, ok := st.(*ast.BlockStmt); ok && len(b.List) == 1 {
			st = b.List[0]
		}
		as, ok := st.(*ast.AssignStmt)
		if !ok || len(as.Lhs) != 1 || len(as.Rhs) != 1 || as.Tok != token.ASSIGN {
			return nil
		}
		return as
	}
	check := func(list []ast.Stmt) {
		for i := 0; i+1 < len(list); i++ {
			ifs, ok := list[i].(*ast.IfStmt)
			if !ok || ifs.Else != nil || len(ifs.Body.List) != 1 {
				continue
			}
			a := single(ifs.Body.List[0])
			b := single(list[i+1])
			if a == nil || b == nil {
				continue
			}
			if same(a.Lhs[0], b.Lhs[0]) && !reads(b.Rhs[0], b.Lhs[0]) {
				out = append(out, a.Pos())
			}
		}
	}
	ast.Inspect(root, func(n ast.Node) bool {
		switch x := n.(type) {
		case *ast.BlockStmt:
			check(x.List)
		case *ast.CaseClause:
			check(x.Body)
		case *ast.CommClause:
			check(x.Body)
		}
		return true
	})
	return out
}

func runDS(c *Ctx, s *Sink) {
	textSame := func(a, b ast.Expr) bool { return types.ExprString(a) == types.ExprString(b) }
	textReads := func(e ast.Expr, l ast.Expr) bool {
		found := false
		lt := types.ExprString(l)
		ast.Inspect(e, func(n ast.Node) bool {
			if x, ok := n.(ast.Expr); ok && types.ExprString(x) == lt {
				found = true
			}
			return true
		})
		return found
	}
	// self-test
	const example = `package p
func f(m map[string]interface{}, k string, v float64) {
	if v == 1 {
		m[k] = int(v)
	}
	{
		m[k] = v
	}
}`
	fset := token.NewFileSet()
	if f, err := parser.ParseFile(fset, "example.go", example, 0); err != nil || len(dsFind(f, textSame, textReads)) != 1 {
		s.Undecided(nil, "DS:self-test", 0, "the matcher does not find the embedded example")
		return
	}
	s.Pass(nil, "DS:self-test", 0, "the matcher finds the embedded example (a conditional store overwritten by the next statement)")
	n := 0
	c.EachFunc([]string{"pkg/obiformats", "pkg/obiseq"}, func(p *packages.Package, fd *ast.FuncDecl) {
		n++
		for _, pos := range dsFind(fd.Body, textSame, textReads) {
			s.Fail(nil, funcName(p, fd)+":conditional-store-overwritten", pos, "the value stored under the condition is overwritten by the unconditional store that follows it (a missing else): in the JSON header parser every integral number is converted to int and then put back as float64 — a category value >= 1e6 read from a JSON header is the text 2.759204e+06 for the dereplication and 2759204 when it comes from an OBI header or from memory: obiuniq --in-memory -c taxid outputs two records with the same key, the default on-disk mode one")
		}
	})
}
