package main

// IT-5 / W-1 — re-sequencer shape: the in-order branch and the drain loop of
// a re-sequencing buffer perform the same emission.

import (
	"bytes"
	"fmt"
	"go/ast"
	"go/printer"
	"go/token"
	"go/types"
	"regexp"
	"sort"
	"strings"

	"golang.org/x/tools/go/packages"
)

type reseq struct {
	pkg     *packages.Package
	fd      *ast.FuncDecl
	ifs     *ast.IfStmt
	next    types.Object // the counter
	item    ast.Expr     // receiver whose number is compared
	itemObj types.Object
	buf     types.Object // the map
	drain   *ast.ForStmt
	index   int
	then    []ast.Stmt // in-order branch with calls of parameterless local closures inlined
	store   *ast.BlockStmt // branch that parks an early item
}

func (r *reseq) key() string { return fmt.Sprintf("%s:reseq#%d", funcName(r.pkg, r.fd), r.index) }

// numberOperand: X.f / X.m() (an integer read off X) -> X.  The field or method name is not looked at:
// what makes it the item's number is that the parking branch stores X under it.
func numberOperand(info *types.Info, e ast.Expr) ast.Expr {
	switch x := ast.Unparen(e).(type) {
	case *ast.SelectorExpr:
		if v, ok := info.ObjectOf(x.Sel).(*types.Var); ok && v.IsField() {
			return x.X
		}
	case *ast.CallExpr:
		if sel, ok := x.Fun.(*ast.SelectorExpr); ok && len(x.Args) == 0 {
			return sel.X
		}
	}
	return nil
}

// orderOperand is kept for the callers that only know batches: b.Order() / b.order -> b.
func orderOperand(e ast.Expr) ast.Expr {
	switch x := ast.Unparen(e).(type) {
	case *ast.SelectorExpr:
		return x.X
	case *ast.CallExpr:
		if sel, ok := x.Fun.(*ast.SelectorExpr); ok && len(x.Args) == 0 {
			return sel.X
		}
	}
	return nil
}

// refObj identifies a mutable place that is either a local variable or a field of a local struct
// variable (state.next): the variable's object, resp. the field's object.
func refObj(info *types.Info, e ast.Expr) types.Object {
	switch x := ast.Unparen(e).(type) {
	case *ast.Ident:
		return info.ObjectOf(x)
	case *ast.SelectorExpr:
		if v, ok := info.ObjectOf(x.Sel).(*types.Var); ok && v.IsField() {
			if _, isId := ast.Unparen(x.X).(*ast.Ident); isId {
				return v
			}
		}
	}
	return nil
}

func findResequencers(c *Ctx) []*reseq {
	var out []*reseq
	c.EachFunc(nil, func(p *packages.Package, fd *ast.FuncDecl) {
		info := p.TypesInfo
		defs := collectDefs(info, fd)
		n := 0
		try := func(ifs *ast.IfStmt, rest []ast.Stmt) {
			cond, ok := ast.Unparen(ifs.Cond).(*ast.BinaryExpr)
			if !ok || (cond.Op != token.EQL && cond.Op != token.NEQ) {
				return
			}
			// forms:  number == next {emit} else {park}  |  number != next {park} else {emit}
			//         number != next {park; continue}  emit…   (rest of the loop body)
			var emitList []ast.Stmt
			var storeBlock *ast.BlockStmt
			eb, _ := ifs.Else.(*ast.BlockStmt)
			switch {
			case cond.Op == token.EQL && eb != nil:
				emitList, storeBlock = ifs.Body.List, eb
			case cond.Op == token.NEQ && eb != nil:
				emitList, storeBlock = eb.List, ifs.Body
			case cond.Op == token.NEQ && ifs.Else == nil && len(ifs.Body.List) > 0 && rest != nil:
				if br, ok := ifs.Body.List[len(ifs.Body.List)-1].(*ast.BranchStmt); ok && br.Tok == token.CONTINUE {
					emitList, storeBlock = rest, &ast.BlockStmt{Lbrace: ifs.Body.Lbrace, List: ifs.Body.List[:len(ifs.Body.List)-1], Rbrace: ifs.Body.Rbrace}
				}
			}
			if emitList == nil || storeBlock == nil {
				return
			}
			// the parking store  M[number] = X  tells which side is the item's number
			var buf types.Object
			var item, cnt ast.Expr
			for _, st := range storeBlock.List {
				as, ok := st.(*ast.AssignStmt)
				if !ok || len(as.Lhs) != 1 || len(as.Rhs) != 1 {
					continue
				}
				ix, ok := as.Lhs[0].(*ast.IndexExpr)
				if !ok {
					continue
				}
				tv, ok := info.Types[ix.X]
				if !ok {
					continue
				}
				if _, isMap := tv.Type.Underlying().(*types.Map); !isMap {
					continue
				}
				for _, side := range [][2]ast.Expr{{cond.X, cond.Y}, {cond.Y, cond.X}} {
					recv := numberOperand(info, side[0])
					if recv != nil && types.ExprString(ix.Index) == types.ExprString(side[0]) && types.ExprString(ast.Unparen(as.Rhs[0])) == types.ExprString(recv) {
						item, cnt = recv, side[1]
						buf = refObj(info, ix.X)
					}
				}
			}
			if buf == nil || item == nil {
				return
			}
			next := refObj(info, cnt)
			if next == nil {
				return
			}
			// the counter must be incremented in the in-order branch (calls of parameterless local closures inlined)
			hasInc := false
			var drain *ast.ForStmt
			var then []ast.Stmt
			for _, st := range inlineLocalCalls(info, defs, emitList) {
				// for x, ok := M[next]; ok; x, ok = M[next] { body }   ==   x, ok := M[next]; for ok { body; x, ok = M[next] }
				if f, ok := st.(*ast.ForStmt); ok && f.Init != nil && f.Post != nil {
					if _, isId := ast.Unparen(f.Cond).(*ast.Ident); isId {
						then = append(then, f.Init)
						st = &ast.ForStmt{For: f.For, Cond: f.Cond, Body: &ast.BlockStmt{Lbrace: f.Body.Lbrace, List: append(append([]ast.Stmt{}, f.Body.List...), f.Post), Rbrace: f.Body.Rbrace}}
					}
				}
				then = append(then, st)
			}
			for _, st := range then {
				if inc, ok := st.(*ast.IncDecStmt); ok && refObj(info, inc.X) == next {
					hasInc = true
				}
				if f, ok := st.(*ast.ForStmt); ok && f.Init == nil && f.Post == nil {
					drain = f
				}
			}
			if !hasInc && drain == nil {
				return
			}
			n++
			r := &reseq{pkg: p, fd: fd, ifs: ifs, next: next, item: item, buf: buf, drain: drain, index: n, then: then, store: storeBlock}
			r.itemObj = rootObj(info, item)
			out = append(out, r)
		}
		ast.Inspect(fd.Body, func(nd ast.Node) bool {
			switch x := nd.(type) {
			case *ast.BlockStmt:
				for i, st := range x.List {
					if ifs, ok := st.(*ast.IfStmt); ok {
						try(ifs, x.List[i+1:])
					}
				}
			}
			return true
		})
	})
	return out
}

func init() {
	register(&Rule{
		ID: "W-1", Props: []string{"C04", "C03", "C18", "C05", "C01"}, Min: 4,
		Doc: `re-sequencer drain parity: in every re-sequencing buffer (branch 'number == next', drain loop over a map keyed by next, else-branch storing the early item)
the in-order branch and the drain loop perform the same emission — same calls on the same sink under the same guards with the same error handling (factoring into a helper passes) —
the counter starts at 0 and is incremented exactly once after each emission, early items are stored under their own number, and the drain looks up the incremented counter.`,
		Run: runW1,
	})
}

func reseqProps(r *reseq) []string {
	if rel(r.pkg.PkgPath) == "pkg/obiiter" {
		return []string{"C03", "C01"} // SortBatches restores the file order behind the parallel parsers of every reader
	}
	return []string{"C04", "C18", "C05", "C03"} // a writer that parks or drops a batch loses records end to end
}

var identRe = func(name string) *regexp.Regexp { return regexp.MustCompile(`\b` + regexp.QuoteMeta(name) + `\b`) }

func nodeString(fset *token.FileSet, n ast.Node) string {
	var buf bytes.Buffer
	printer.Fprint(&buf, fset, n)
	return strings.Join(strings.Fields(buf.String()), " ")
}

func isLoggingCall(info *types.Info, call *ast.CallExpr) bool {
	fn := fullName(callee(info, call))
	return strings.HasPrefix(fn, "github.com/sirupsen/logrus.") || strings.HasPrefix(fn, "log.") || strings.HasPrefix(fn, "fmt.Print")
}

func returnsError(info *types.Info, call *ast.CallExpr) bool {
	tv, ok := info.Types[call]
	if !ok {
		return false
	}
	isErr := func(t types.Type) bool { return t.String() == "error" }
	if tup, ok := tv.Type.(*types.Tuple); ok {
		for i := 0; i < tup.Len(); i++ {
			if isErr(tup.At(i).Type()) {
				return true
			}
		}
		return false
	}
	return isErr(tv.Type)
}

// emissionSet summarises the effectful calls of a statement list.
// Each entry: guards => call [checked|unchecked|noerr]
func emissionSet(fset *token.FileSet, info *types.Info, stmts []ast.Stmt, itemNames []string, skip func(ast.Stmt) bool) []string {
	var out []string
	norm := func(s string) string {
		for _, n := range itemNames {
			s = identRe(n).ReplaceAllLiteralString(s, "ITEM")
		}
		return s
	}
	var walkList func(list []ast.Stmt, guards []string)
	errChecked := func(list []ast.Stmt, i int, errVar types.Object) bool {
		if errVar == nil {
			return false
		}
		for j := i + 1; j < len(list); j++ {
			ifs, ok := list[j].(*ast.IfStmt)
			if !ok {
				continue
			}
			uses := false
			ast.Inspect(ifs.Cond, func(n ast.Node) bool {
				if id, ok := n.(*ast.Ident); ok && info.ObjectOf(id) == errVar {
					uses = true
				}
				return true
			})
			if uses && blockDiverges(info, ifs.Body) {
				return true
			}
		}
		return false
	}
	addCalls := func(list []ast.Stmt, i int, st ast.Stmt, guards []string) {
		// top-level call of the statement with its error disposition
		var top *ast.CallExpr
		var errVar types.Object
		switch x := st.(type) {
		case *ast.ExprStmt:
			top, _ = x.X.(*ast.CallExpr)
		case *ast.AssignStmt:
			if len(x.Rhs) == 1 {
				top, _ = ast.Unparen(x.Rhs[0]).(*ast.CallExpr)
				for _, l := range x.Lhs {
					if id, ok := l.(*ast.Ident); ok && id.Name != "_" {
						if o := info.ObjectOf(id); o != nil && o.Type().String() == "error" {
							errVar = o
						}
					}
				}
			}
		}
		ast.Inspect(st, func(n ast.Node) bool {
			if _, ok := n.(*ast.FuncLit); ok {
				return false
			}
			call, ok := n.(*ast.CallExpr)
			if !ok {
				return true
			}
			if isLoggingCall(info, call) {
				return false
			}
			if tv, ok := info.Types[call.Fun]; ok && (tv.IsType() || tv.IsBuiltin()) {
				return true
			}
			disp := "noerr"
			if returnsError(info, call) {
				disp = "unchecked"
				if call == top && errChecked(list, i, errVar) {
					disp = "checked"
				}
			}
			out = append(out, norm(strings.Join(guards, " && ")+" => "+nodeString(fset, call)+" ["+disp+"]"))
			return true
		})
	}
	walkList = func(list []ast.Stmt, guards []string) {
		for i, st := range list {
			if skip != nil && skip(st) {
				continue
			}
			switch x := st.(type) {
			case *ast.IfStmt:
				// `if n, err := w.Write(…); err != nil {…}`: the initialiser is a statement of its own, checked by this very if
				if x.Init != nil {
					addCalls([]ast.Stmt{x.Init, x}, 0, x.Init, guards)
				}
				// an error-check if (diverging body without effect calls) is part of error handling, not an emission
				if blockDiverges(info, x.Body) && x.Else == nil {
					continue
				}
				g := nodeString(fset, x.Cond)
				walkList(x.Body.List, append(append([]string{}, guards...), g))
				if eb, ok := x.Else.(*ast.BlockStmt); ok {
					walkList(eb.List, append(append([]string{}, guards...), "!("+g+")"))
				}
			case *ast.BlockStmt:
				walkList(x.List, guards)
			case *ast.SendStmt:
				out = append(out, norm(strings.Join(guards, " && ")+" => send "+nodeString(fset, x.Chan)+" <- "+nodeString(fset, x.Value)))
			default:
				addCalls(list, i, st, guards)
			}
		}
	}
	walkList(stmts, nil)
	sort.Strings(out)
	return out
}

// blockDiverges: the block ends in a no-return call or a return.
func blockDiverges(info *types.Info, b *ast.BlockStmt) bool {
	if b == nil || len(b.List) == 0 {
		return false
	}
	switch x := b.List[len(b.List)-1].(type) {
	case *ast.ReturnStmt:
		return true
	case *ast.ExprStmt:
		if call, ok := x.X.(*ast.CallExpr); ok {
			return noReturnCall(info, call)
		}
	}
	return false
}

func runW1(c *Ctx, s *Sink) {
	for _, r := range findResequencers(c) {
		props := reseqProps(r)
		info := r.pkg.TypesInfo
		key := r.key()
		if r.drain == nil {
			s.Fail(props, key, r.ifs.Pos(), "re-sequencer has no drain loop: batches stored while waiting are never emitted")
			continue
		}
		isNextInc := func(st ast.Stmt) bool {
			inc, ok := st.(*ast.IncDecStmt)
			if !ok || inc.Tok != token.INC {
				return false
			}
			return refObj(info, inc.X) == r.next
		}
		isLookup := func(st ast.Stmt) (types.Object, bool) {
			as, ok := st.(*ast.AssignStmt)
			if !ok || len(as.Rhs) != 1 || len(as.Lhs) != 2 {
				return nil, false
			}
			ix, ok := ast.Unparen(as.Rhs[0]).(*ast.IndexExpr)
			if !ok {
				return nil, false
			}
			if refObj(info, ix.X) != r.buf {
				return nil, false
			}
			if refObj(info, ix.Index) != r.next {
				return nil, false
			}
			lid, _ := as.Lhs[0].(*ast.Ident)
			if lid == nil {
				return nil, false
			}
			return info.ObjectOf(lid), true
		}
		isDelete := func(st ast.Stmt) bool {
			es, ok := st.(*ast.ExprStmt)
			if !ok {
				return false
			}
			call, ok := es.X.(*ast.CallExpr)
			if !ok {
				return false
			}
			id, ok := call.Fun.(*ast.Ident)
			return ok && id.Name == "delete"
		}
		// split the then-branch: emission | next++ | lookup | drain
		var pre []ast.Stmt
		incs := 0
		var drained types.Object
		phase := 0
		bad := ""
		for _, st := range r.then {
			switch {
			case isNextInc(st):
				incs++
				if phase != 0 {
					bad = "counter incremented again after the in-order emission"
				}
				phase = 1
			case st == ast.Stmt(r.drain):
				phase = 3
			default:
				if o, ok := isLookup(st); ok {
					if phase != 1 {
						bad = "lookup of the buffered item does not follow the increment"
					}
					drained = o
					phase = 2
					continue
				}
				if phase == 0 {
					pre = append(pre, st)
				} else if !isDelete(st) {
					if es, ok := st.(*ast.ExprStmt); ok {
						if call, ok := es.X.(*ast.CallExpr); ok && isLoggingCall(info, call) {
							continue
						}
					}
					bad = "unexpected statement after the in-order emission: " + nodeString(c.Fset, st)
				}
			}
		}
		if incs != 1 {
			s.Fail(props, key, r.ifs.Pos(), fmt.Sprintf("in-order branch increments the counter %d times (must be exactly once after the emission)", incs))
			continue
		}
		if bad != "" {
			s.Undecided(props, key, r.ifs.Pos(), bad)
			continue
		}
		if drained == nil {
			s.Fail(props, key, r.ifs.Pos(), "after the increment the buffer is not looked up under the new counter value")
			continue
		}
		// drain body
		var dpre []ast.Stmt
		dincs, relook := 0, false
		dphase := 0
		lateDelete := false
		for _, st := range r.drain.Body.List {
			switch {
			case isNextInc(st):
				dincs++
				dphase = 1
			case isDelete(st):
				// delete(buffer, counter) after the increment removes the NEXT buffered item
				if dphase == 1 {
					if es, ok := st.(*ast.ExprStmt); ok {
						if call, ok := es.X.(*ast.CallExpr); ok && len(call.Args) == 2 {
							if refObj(info, call.Args[1]) == r.next && refObj(info, call.Args[0]) == r.buf {
								lateDelete = true
							}
						}
					}
				}
			default:
				if as, ok := st.(*ast.AssignStmt); ok && len(as.Rhs) == 1 {
					if ix, ok := ast.Unparen(as.Rhs[0]).(*ast.IndexExpr); ok {
						if refObj(info, ix.X) == r.buf && refObj(info, ix.Index) == r.next && dphase == 1 {
							relook = true
							continue
						}
					}
				}
				if dphase == 0 {
					dpre = append(dpre, st)
				}
			}
		}
		if dincs != 1 {
			s.Fail(props, key, r.drain.Pos(), fmt.Sprintf("drain loop increments the counter %d times per drained item (must be exactly once)", dincs))
			continue
		}
		if lateDelete {
			s.Fail(props, key, r.drain.Pos(), "the drain loop deletes buffer[counter] after incrementing the counter: it removes the next buffered item instead of the one just emitted; that item is never emitted and everything behind it stays parked (needs two consecutive early arrivals)")
			continue
		}
		if !relook {
			s.Fail(props, key, r.drain.Pos(), "drain loop does not look the buffer up again under the incremented counter")
			continue
		}
		// else-branch stores under the item's own number
		storeOK := false
		if eb := r.store; eb != nil {
			for _, st := range eb.List {
				if as, ok := st.(*ast.AssignStmt); ok && len(as.Lhs) == 1 && len(as.Rhs) == 1 {
					if ix, ok := as.Lhs[0].(*ast.IndexExpr); ok {
						if op := numberOperand(info, ix.Index); op != nil && rootObj(info, op) == r.itemObj && rootObj(info, as.Rhs[0]) == r.itemObj {
							storeOK = true
						}
					}
				}
			}
		}
		if !storeOK {
			s.Fail(props, key, r.store.Pos(), "an early item is not stored under its own number")
			continue
		}
		// counter initial value 0
		if init, ok := counterInit(info, r.fd, r.next, false, nil); !ok || init != 0 {
			s.Fail(props, key, r.ifs.Pos(), "the counter "+r.next.Name()+" of the re-sequencer does not start at the constant 0")
			continue
		}
		names1 := []string{types.ExprString(r.item)}
		names2 := []string{drained.Name()}
		e1 := emissionSet(c.Fset, info, pre, names1, nil)
		e2 := emissionSet(c.Fset, info, dpre, names2, nil)
		if len(e1) == 0 {
			s.Fail(props, key, r.ifs.Pos(), "in-order branch emits nothing")
			continue
		}
		strip := func(l []string) []string {
			var o []string
			for _, x := range l {
				if i := strings.LastIndex(x, " ["); i >= 0 {
					x = x[:i]
				}
				o = append(o, x)
			}
			return o
		}
		if strings.Join(e1, "\n") == strings.Join(e2, "\n") {
			s.Pass(props, key, r.ifs.Pos(), fmt.Sprintf("in-order branch and drain loop perform the same %d emission step(s) with the same error handling; counter discipline ok", len(e1)))
			continue
		}
		if strings.Join(strip(e1), "\n") == strings.Join(strip(e2), "\n") {
			// same emission, different error handling: a C18 matter only
			var only18, rest []string
			for _, p := range props {
				if p == "C18" {
					only18 = append(only18, p)
				} else {
					rest = append(rest, p)
				}
			}
			if len(rest) > 0 {
				s.Pass(rest, key, r.ifs.Pos(), fmt.Sprintf("in-order branch and drain loop perform the same %d emission step(s); counter discipline ok", len(e1)))
			}
			if len(only18) > 0 {
				s.Fail(only18, key, r.drain.Pos(), "the drain loop performs the same writes as the in-order branch but does not check their errors the same way: a write failure on a batch that arrived early is silently ignored", append(e1, e2...)...)
			}
			continue
		}
		var diff []string
		in := func(l []string, x string) bool {
			for _, y := range l {
				if x == y {
					return true
				}
			}
			return false
		}
		for _, x := range e1 {
			if !in(e2, x) {
				diff = append(diff, "only in-order: "+x)
			}
		}
		for _, x := range e2 {
			if !in(e1, x) {
				diff = append(diff, "only drain: "+x)
			}
		}
		s.Fail(props, key, r.drain.Pos(), "the drain loop does not perform the same emission as the in-order branch: an item that arrives early is written differently (separator, error check or sink) from one that arrives in order", diff...)
	}
}

// inlineLocalCalls replaces, in a statement list, every statement `f()` where f is a local variable
// defined once by a parameterless, resultless function literal by the statements of that literal
// (one level): extracting a block into a local closure must not change what the rules see.
func inlineLocalCalls(info *types.Info, defs map[types.Object][]ast.Expr, list []ast.Stmt) []ast.Stmt {
	var out []ast.Stmt
	for _, st := range list {
		if es, ok := st.(*ast.ExprStmt); ok {
			if call, ok := es.X.(*ast.CallExpr); ok && len(call.Args) == 0 {
				if _, isIdent := ast.Unparen(call.Fun).(*ast.Ident); isIdent {
					if lit := localClosure(info, defs, call.Fun); lit != nil && lit.Type.Params.NumFields() == 0 && lit.Type.Results.NumFields() == 0 {
						out = append(out, lit.Body.List...)
						continue
					}
				}
			}
		}
		out = append(out, st)
	}
	return out
}
