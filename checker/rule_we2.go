package main

// WE-2 the process waits for its writers; WE-3 writer registration.

import (
	"go/ast"
	"go/token"
	"go/types"
	"strings"

	"golang.org/x/tools/go/packages"
)

func init() {
	register(&Rule{
		ID: "WE-2", Props: []string{"C18", "C04"}, Min: 20,
		Doc: `the process waits for the writers: in every cmd/obitools/*/main.go each path from a call that can start a writer goroutine (a function that reaches, through
static references, one that registers a writer pipe: WriteSeqFileChunk, WriteJSON, WriteCSV) to a normal return of main passes through obiiter.WaitForLastPipe()
(typestate over go/cfg). Mains that start no writer are listed as such.`,
		Run: runWE2,
	})
	register(&Rule{
		ID: "WE-3", Props: []string{"C18", "C04"}, Min: 3,
		Doc: `writer registration: in every function that registers a writer pipe, RegisterAPipe() is executed before the go statement of the writing goroutine, and in that
goroutine every normal exit passes UnregisterPipe() exactly once, after the output has been closed.`,
		Run: runWE3,
	})
}

func writerStarters(c *Ctx) map[*types.Func]bool {
	out := map[*types.Func]bool{}
	c.EachFunc(nil, func(p *packages.Package, fd *ast.FuncDecl) {
		if rel(p.PkgPath) == "pkg/obiiter" {
			return
		}
		found := false
		ast.Inspect(fd.Body, func(n ast.Node) bool {
			if call, ok := n.(*ast.CallExpr); ok && isCallTo(p.TypesInfo, call, "pkg/obiiter.RegisterAPipe") {
				found = true
			}
			return true
		})
		if found {
			if fn, ok := p.TypesInfo.Defs[fd.Name].(*types.Func); ok {
				out[fn] = true
			}
		}
	})
	return out
}

// pendingWriter computes, per function, whether a call may return while a
// writer it started has not been waited for.
type pendingSummary struct {
	c        *Ctx
	starters map[*types.Func]bool
	reach    map[*types.Func]bool
	memo     map[*types.Func]int // 1 = pending, 2 = not pending, 3 = in progress
}

// analyse runs the start/wait typestate on a body; returns (exit-with-pending
// reachable, position, number of start events, a literal starts a writer).
func (ps *pendingSummary) analyse(info *types.Info, body *ast.BlockStmt) (bool, token.Pos, int, bool) {
	nstart := 0
	g := buildCFG(info, body)
	ts := &typestate{g: g, init: 0, info: info,
		events: func(n ast.Node) []tsEvent {
			var evs []tsEvent
			visitEval(n, func(m ast.Node) {
				switch x := m.(type) {
				case *ast.CallExpr:
					if isCallTo(info, x, "pkg/obiiter.WaitForLastPipe") {
						evs = append(evs, tsEvent{kind: "wait", node: m})
					}
				case *ast.Ident:
					// any reference (call or function value) to a function that may leave a writer pending
					if fn, ok := info.Uses[x].(*types.Func); ok && ps.pending(fn.Origin()) {
						evs = append(evs, tsEvent{kind: "start", node: m})
					}
				}
			})
			return evs
		},
		step: func(st int, ev tsEvent) (int, string) {
			if ev.kind == "start" {
				nstart++
				return 1, ""
			}
			return 2, ""
		}}
	res := ts.run()
	litStart := false
	ast.Inspect(body, func(n ast.Node) bool {
		if lit, ok := n.(*ast.FuncLit); ok {
			ast.Inspect(lit.Body, func(m ast.Node) bool {
				if id, ok := m.(*ast.Ident); ok {
					if fn, ok := info.Uses[id].(*types.Func); ok && ps.pending(fn.Origin()) {
						litStart = true
					}
				}
				return true
			})
		}
		return true
	})
	pend := res.exitStates&(1<<1) != 0 || (litStart && res.exitStates&(1<<0) != 0)
	pos := res.exitPos[1]
	if !pos.IsValid() {
		pos = res.exitPos[0]
	}
	return pend, pos, nstart, litStart
}

func (ps *pendingSummary) pending(fn *types.Func) bool {
	if ps.starters[fn] {
		return true
	}
	if !ps.reach[fn] {
		return false
	}
	switch ps.memo[fn] {
	case 1, 3:
		return true // recursion: conservatively pending
	case 2:
		return false
	}
	fd, p := ps.c.DeclOf(fn)
	if fd == nil || fd.Body == nil {
		return false
	}
	ps.memo[fn] = 3
	pend, _, _, _ := ps.analyse(p.TypesInfo, fd.Body)
	if pend {
		ps.memo[fn] = 1
	} else {
		ps.memo[fn] = 2
	}
	return pend
}

func runWE2(c *Ctx, s *Sink) {
	starters := writerStarters(c)
	ps := &pendingSummary{c: c, starters: starters, reach: c.RefGraph().reachers(starters), memo: map[*types.Func]int{}}
	c.EachFunc([]string{"cmd/obitools"}, func(p *packages.Package, fd *ast.FuncDecl) {
		if fd.Name.Name != "main" || fd.Recv != nil || p.Name != "main" {
			return
		}
		key := rel(p.PkgPath) + ".main"
		pend, pos, nstart, litStart := ps.analyse(p.TypesInfo, fd.Body)
		switch {
		case pend:
			s.Fail(nil, key, pos, "main can return after starting a writer without obiiter.WaitForLastPipe(): the process may exit before the output is written and its errors reported",
				"entry "+c.Pos(fd.Pos())+" → exit "+c.Pos(pos))
		case nstart == 0 && !litStart:
			s.Pass(nil, key, fd.Pos(), "starts no writer goroutine that is still pending when the callee returns")
		default:
			s.Pass(nil, key, fd.Pos(), "every path from a writer start to the return of main passes WaitForLastPipe()")
		}
	})
}

func runWE3(c *Ctx, s *Sink) {
	for fn := range writerStarters(c) {
		fd, p := c.DeclOf(fn)
		if fd == nil {
			continue
		}
		info := p.TypesInfo
		defs := collectDefs(info, fd)
		key := funcName(p, fd)
		var reg *ast.CallExpr
		var gostmt *ast.GoStmt
		var litBody *ast.BlockStmt
		var litInfo *types.Info
		deferred := false
		ast.Inspect(fd.Body, func(n ast.Node) bool {
			switch x := n.(type) {
			case *ast.FuncLit:
				return false
			case *ast.CallExpr:
				if isCallTo(info, x, "pkg/obiiter.RegisterAPipe") && reg == nil {
					reg = x
				}
			case *ast.GoStmt:
				if body, binfo := c.goTarget(info, defs, x); body != nil {
					has := false
					ast.Inspect(body, func(n ast.Node) bool {
						if call, ok := n.(*ast.CallExpr); ok && isCallTo(binfo, call, "pkg/obiiter.UnregisterPipe") {
							has = true
						}
						return true
					})
					if has && gostmt == nil {
						gostmt, litBody, litInfo = x, body, binfo
						ncalls := 0
						ast.Inspect(body, func(n ast.Node) bool {
							if call, ok := n.(*ast.CallExpr); ok && isCallTo(binfo, call, "pkg/obiiter.UnregisterPipe") {
								ncalls++
							}
							return true
						})
						for _, st := range body.List {
							if d, ok := st.(*ast.DeferStmt); ok && isCallTo(binfo, d.Call, "pkg/obiiter.UnregisterPipe") && ncalls == 1 {
								deferred = true
							}
						}
					}
				}
				return false
			}
			return true
		})
		if reg == nil {
			s.Undecided(nil, key, fd.Pos(), "RegisterAPipe() is not called by the function itself")
			continue
		}
		if gostmt == nil {
			s.Fail(nil, key, reg.Pos(), "a writer pipe is registered but no goroutine of this function unregisters it: WaitForLastPipe() never returns")
			continue
		}
		if reg.Pos() > gostmt.Pos() {
			s.Fail(nil, key, reg.Pos(), "the writer goroutine is started before RegisterAPipe(): WaitForLastPipe() may return before the writer is registered")
			continue
		}
		if deferred {
			s.Pass(nil, key, reg.Pos(), "registered before the writer goroutine starts; UnregisterPipe() is deferred by the goroutine: executed once, after everything it does")
			continue
		}
		// in the goroutine: exactly one UnregisterPipe on every exit, after every write/close of the sink
		g := buildCFG(litInfo, litBody)
		ts := &typestate{g: g, init: 0, info: litInfo,
			events: func(n ast.Node) []tsEvent {
				var evs []tsEvent
				visitEval(n, func(m ast.Node) {
					if call, ok := m.(*ast.CallExpr); ok {
						if isCallTo(litInfo, call, "pkg/obiiter.UnregisterPipe") {
							evs = append(evs, tsEvent{kind: "unreg", node: m})
						} else if sel, ok := call.Fun.(*ast.SelectorExpr); ok && sinkMethods[sel.Sel.Name] {
							if tv, ok := litInfo.Types[sel.X]; ok && sinkTypes[sinkTypeName(tv.Type)] {
								evs = append(evs, tsEvent{kind: "io", node: m})
							}
						} else if id, ok := call.Fun.(*ast.Ident); ok && strings.HasPrefix(id.Name, "write") {
							evs = append(evs, tsEvent{kind: "io", node: m})
						}
					}
				})
				return evs
			},
			step: func(st int, ev tsEvent) (int, string) {
				switch ev.kind {
				case "unreg":
					if st == 1 {
						return 1, "UnregisterPipe() executed twice on a path"
					}
					return 1, ""
				case "io":
					if st == 1 {
						return 1, "output is written or closed after UnregisterPipe(): main may already have exited"
					}
				}
				return st, ""
			}}
		res := ts.run()
		if len(res.errs) > 0 {
			s.Fail(nil, key, res.errs[0].pos, res.errs[0].msg)
			continue
		}
		if res.exitStates&1 != 0 {
			s.Fail(nil, key, res.exitPos[0], "the writer goroutine can end without UnregisterPipe(): WaitForLastPipe() never returns")
			continue
		}
		s.Pass(nil, key, reg.Pos(), "registered before the writer goroutine starts; unregistered once on every exit, after the last write/close")
	}
}

var _ = packages.NeedName
