package main

// JH — what the title line holds around the annotation object stays in the definition (C02).

import (
	"go/ast"
	"go/types"

	"golang.org/x/tools/go/packages"
)

func init() {
	register(&Rule{
		ID: "JH", Props: []string{"C02"}, Min: 1,
		Doc: `"never changes or loses annotations for any title line the parser accepts": in pkg/obiformats the function that hands a slice header[a:b] of its string parameter to json.Unmarshal
returns, after that call, a text built from BOTH remaining parts of the parameter — a slice without lower bound (header[:a]) and a slice without upper bound (header[b:]) — or the whole parameter:
_parse_json_header_ returned header[stop:] only, so with --input-json-header the title ">s1 words before {"a":1} words after" lost "words before" without a word, exit 0.`,
		Run: func(c *Ctx, s *Sink) {
			c.EachFunc([]string{"pkg/obiformats"}, func(p *packages.Package, fd *ast.FuncDecl) {
				info := p.TypesInfo
				var param types.Object
				var at ast.Node
				ast.Inspect(fd.Body, func(n ast.Node) bool {
					call, ok := n.(*ast.CallExpr)
					if !ok || len(call.Args) != 2 || param != nil {
						return true
					}
					if fn := fullName(callee(info, call)); fn != "encoding/json.Unmarshal" && fn != "github.com/goccy/go-json.Unmarshal" {
						return true
					}
					ast.Inspect(call.Args[0], func(m ast.Node) bool {
						if se, ok := m.(*ast.SliceExpr); ok && se.Low != nil && se.High != nil {
							x := ast.Unparen(se.X)
							if cv, ok := x.(*ast.CallExpr); ok && len(cv.Args) == 1 {
								if tv, ok := info.Types[cv.Fun]; ok && tv.IsType() {
									x = cv.Args[0]
								}
							}
							if o := rootObj(info, x); o != nil && isParamOf(info, fd, o) {
								if b, ok := o.Type().Underlying().(*types.Basic); ok && b.Kind() == types.String {
									param, at = o, call
								}
							}
						}
						return true
					})
					return true
				})
				if param == nil {
					return
				}
				n := 0
				ast.Inspect(fd.Body, func(nd ast.Node) bool {
					if _, ok := nd.(*ast.FuncLit); ok {
						return false
					}
					ret, ok := nd.(*ast.ReturnStmt)
					if !ok || ret.Pos() < at.Pos() || len(ret.Results) == 0 {
						return true
					}
					pre, post, whole, uses := false, false, false, false
					for _, r := range ret.Results {
						ast.Inspect(r, func(m ast.Node) bool {
							switch y := m.(type) {
							case *ast.SliceExpr:
								if rootObj(info, y.X) == param {
									uses = true
									if y.Low == nil && y.High != nil {
										pre = true
									}
									if y.High == nil && y.Low != nil {
										post = true
									}
									return false
								}
							case *ast.Ident:
								if info.ObjectOf(y) == param {
									uses, whole = true, true
								}
							}
							return true
						})
					}
					if !uses {
						return true
					}
					n++
					key := funcName(p, fd) + ":return#" + itoa(n) + ":both-sides-kept"
					if whole || pre && post {
						s.Pass(nil, key, ret.Pos(), "the text returned holds what precedes and what follows the object")
					} else {
						s.Fail(nil, key, ret.Pos(), "only one side of the annotation object goes to the definition: with --input-json-header the title \">s1 words before {\\\"a\\\":1} words after\" is written back as {\"a\":1,\"definition\":\"words after\"} — \"words before\" is lost, no message, exit 0")
					}
					return true
				})
			})
		},
	})
}

func isParamOf(info *types.Info, fd *ast.FuncDecl, o types.Object) bool {
	for _, f := range fd.Type.Params.List {
		for _, nm := range f.Names {
			if info.ObjectOf(nm) == o {
				return true
			}
		}
	}
	return false
}
