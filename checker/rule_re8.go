package main

// RE-8 — the tables of the taxonomy dump are read to their end, or not at all (C17).

import (
	"fmt"
	"go/ast"
	"go/token"
	"go/types"
	"strings"

	"golang.org/x/tools/go/packages"
)

func init() {
	register(&Rule{
		ID: "RE-8", Props: []string{"C17"}, Min: 3,
		Doc: `"any read error other than a clean end of file on the input stream is fatal" — the general clause, for the other files a command reads. In pkg/obiformats/ncbitaxdump every read of a table
(encoding/csv Reader.Read, bufio ReadLine/ReadString/ReadBytes) has its error consumed as RE-2 demands — tested, io.EOF alone benign, anything else fatal or returned — and no loop runs
"while err == nil" on such a read (for x, err := r.Read(); err == nil; …): that form takes EISDIR, EIO, a damaged line (csv.ErrFieldCount, a bare quote) for the end of the table. obifind -t with
a nodes.dmp whose 8th line lost two separators: "7 Taxonomy nodes read" of 10, exit 0.`,
		Run: func(c *Ctx, s *Sink) {
			isTableRead := func(info *types.Info, call *ast.CallExpr) bool {
				fn := fullName(callee(info, call))
				switch fn {
				case "encoding/csv.(Reader).Read", "encoding/csv.(Reader).ReadAll", "bufio.(Reader).ReadLine", "bufio.(Reader).ReadString", "bufio.(Reader).ReadBytes", "bufio.(Scanner).Scan":
					return true
				}
				return false
			}
			c.EachFunc([]string{"pkg/obiformats/ncbitaxdump"}, func(p *packages.Package, fd *ast.FuncDecl) {
				info := p.TypesInfo
				fname := funcName(p, fd)
				counts := map[string]int{}
				var stack []ast.Node
				ast.Inspect(fd.Body, func(n ast.Node) bool {
					if n == nil {
						stack = stack[:len(stack)-1]
						return true
					}
					stack = append(stack, n)
					call, ok := n.(*ast.CallExpr)
					if !ok || !isTableRead(info, call) {
						return true
					}
					name := types.ExprString(call.Fun)
					counts[name]++
					key := fmt.Sprintf("%s:%s#%d", fname, name, counts[name])
					// the "while err == nil" loop
					for k := len(stack) - 2; k >= 0; k-- {
						fs, ok := stack[k].(*ast.ForStmt)
						if !ok {
							continue
						}
						inHead := fs.Init != nil && fs.Init.Pos() <= call.Pos() && call.End() <= fs.Init.End() ||
							fs.Post != nil && fs.Post.Pos() <= call.Pos() && call.End() <= fs.Post.End()
						if !inHead {
							break
						}
						if b, ok := ast.Unparen(fs.Cond).(*ast.BinaryExpr); ok && b.Op == token.EQL {
							if id, ok := ast.Unparen(b.Y).(*ast.Ident); ok && id.Name == "nil" {
								if o := rootObj(info, b.X); o != nil && isErrorType(o.Type()) {
									s.Fail(nil, key, call.Pos(), "the table is read while the error is nil: any error ends the loop as the end of the file does — a directory in place of merged.dmp (EISDIR): \"0 merged taxa read\", exit 0; one damaged line in nodes.dmp: \"7 Taxonomy nodes read\" of 10, exit 0")
									return true
								}
							}
						}
						break
					}
					ok2, why := readErrorDisposition(info, fd, stack, call)
					if ok2 {
						s.Pass(nil, key, call.Pos(), why)
					} else {
						s.Fail(nil, key, call.Pos(), "read of a table of the taxonomy dump: "+why)
					}
					return true
				})
			})
		},
	})
}

var _ = strings.Contains

func init() {
	register(&Rule{
		ID: "CW", Props: []string{"C17"}, Min: 1,
		Doc: `"any read error other than a clean end of file on the input stream is fatal": an input read from a command ("|zcat file", accepted by --paired-with, obijoin --join-with, obitag -R) ends
cleanly only if the command succeeded — a failing decompressor closes its output exactly as a successful one. In pkg/ every function that starts a command ((*exec.Cmd).Start) whose output it
hands out also arranges for Wait: it calls Wait/Run itself, or stores the command in a value of a package type one of whose methods calls (*exec.Cmd).Wait and returns an error built from it.
Ropen never waited: obijoin --join-with "|zcat trunc.fasta.gz" exited 0 with 19 of 40 records joined, the same file named directly is fatal.`,
		Run: func(c *Ctx, s *Sink) {
			c.EachFunc([]string{"pkg"}, func(p *packages.Package, fd *ast.FuncDecl) {
				info := p.TypesInfo
				var starts []*ast.CallExpr
				waits := false
				var wrapped []types.Type
				ast.Inspect(fd.Body, func(n ast.Node) bool {
					switch y := n.(type) {
					case *ast.CallExpr:
						switch fullName(callee(info, y)) {
						case "os/exec.(Cmd).Start":
							starts = append(starts, y)
						case "os/exec.(Cmd).Wait", "os/exec.(Cmd).Run", "os/exec.(Cmd).Output", "os/exec.(Cmd).CombinedOutput":
							waits = true
						}
					case *ast.CompositeLit:
						for _, el := range y.Elts {
							v := el
							if kv, ok := el.(*ast.KeyValueExpr); ok {
								v = kv.Value
							}
							if t := info.TypeOf(v); t != nil && strings.HasSuffix(t.String(), "os/exec.Cmd") {
								if lt := info.TypeOf(y); lt != nil {
									wrapped = append(wrapped, lt)
								}
							}
						}
					}
					return true
				})
				stickyFail := false
				for i, st := range starts {
					key := fmt.Sprintf("%s:Start#%d:waited", funcName(p, fd), i+1)
					ok, why := waits, "the function waits for the command itself"
					if !ok {
						for _, t := range wrapped {
							if pt, isP := t.(*types.Pointer); isP {
								t = pt.Elem()
							}
							named, isN := t.(*types.Named)
							if !isN {
								continue
							}
							// a method of the type that calls Wait and returns an error depending on it
							for _, f2 := range p.Syntax {
								for _, d := range f2.Decls {
									m, isF := d.(*ast.FuncDecl)
									if !isF || m.Recv == nil || m.Body == nil || len(m.Recv.List) != 1 {
										continue
									}
									rt := info.TypeOf(m.Recv.List[0].Type)
									if pt, isP := rt.(*types.Pointer); isP {
										rt = pt.Elem()
									}
									if rt != types.Type(named) {
										continue
									}
									callsWait, usesIt := false, false
									var werr types.Object
									ast.Inspect(m.Body, func(q ast.Node) bool {
										switch z := q.(type) {
										case *ast.AssignStmt:
											if len(z.Rhs) == 1 {
												if c2, isC := ast.Unparen(z.Rhs[0]).(*ast.CallExpr); isC && fullName(callee(info, c2)) == "os/exec.(Cmd).Wait" {
													callsWait = true
													werr = rootObj(info, z.Lhs[0])
												}
											}
										case *ast.ReturnStmt:
											if fullName(calleeOfFirstCall(info, z)) == "os/exec.(Cmd).Wait" {
												callsWait, usesIt = true, true
											}
										}
										return true
									})
									if callsWait && werr != nil {
										ast.Inspect(m.Body, func(q ast.Node) bool {
											if id, isI := q.(*ast.Ident); isI && info.Uses[id] == werr {
												usesIt = true
											}
											return true
										})
									}
									if callsWait && usesIt {
										ok, why = true, "the command is kept in a "+named.Obj().Name()+", whose method "+m.Name.Name+" waits for it and reports its failure"
										// Wait closes the pipe: the method does not read it again afterwards — before its read of the
										// underlying stream it returns under a test of the field the waiting branch sets
										var flag string
										var waitPos token.Pos
										ast.Inspect(m.Body, func(q ast.Node) bool {
											if c2, isC := q.(*ast.CallExpr); isC && fullName(callee(info, c2)) == "os/exec.(Cmd).Wait" {
												waitPos = c2.Pos()
											}
											return true
										})
										ast.Inspect(m.Body, func(q ast.Node) bool {
											if as, isA := q.(*ast.AssignStmt); isA && len(as.Lhs) == 1 && len(as.Rhs) == 1 {
												if id, isID := ast.Unparen(as.Rhs[0]).(*ast.Ident); isID && id.Name == "true" {
													if sel, isS := ast.Unparen(as.Lhs[0]).(*ast.SelectorExpr); isS {
														flag = sel.Sel.Name
													}
												}
											}
											return true
										})
										sticky := false
										for _, st := range m.Body.List {
											if st.Pos() > waitPos {
												break
											}
											if is, isIf := st.(*ast.IfStmt); isIf && flag != "" && strings.Contains(types.ExprString(is.Cond), flag) && leavesOrFatal(info, is.Body) {
												sticky = true
											}
										}
										if !sticky {
											ok, why = false, ""
											stickyFail = true
										}
									}
								}
							}
						}
					}
					if !ok && stickyFail {
						s.Fail(nil, key, st.Pos(), "the method that waits for the command reads the pipe again after Wait has closed it: the readers ask once more after the end of the data, and every input read from a command — even a successful one — ends with \"read |0: file already closed\" (obijoin -j \"|cat f\": fatal, exit 1)")
						continue
					}
					if ok {
						s.Pass(nil, key, st.Pos(), why)
					} else {
						s.Fail(nil, key, st.Pos(), "the command is started and never waited for: its exit status is lost, the end of its output is a clean end of file — obijoin --join-with \"|zcat trunc.fasta.gz\" exits 0, no message, 19 of 40 records joined (zcat: unexpected end of file, exit 1); the same file named directly: fatal, unexpected EOF")
					}
				}
			})
		},
	})
}

func calleeOfFirstCall(info *types.Info, ret *ast.ReturnStmt) *types.Func {
	var fn *types.Func
	ast.Inspect(ret, func(n ast.Node) bool {
		if c, ok := n.(*ast.CallExpr); ok && fn == nil {
			fn = callee(info, c)
		}
		return fn == nil
	})
	return fn
}

func init() {
	register(&Rule{
		ID: "XE", Props: []string{"C03", "C17"}, Min: 3,
		Doc: `"an end-to-end command outputs exactly the records selected by its semantics": a file the user names and that cannot be opened ends the command. The error of every call of
obiconvert.ExpandListOfFiles is consumed as a read error is (RE-2): tested, then fatal or returned in an expression that depends on it — never turned into an empty list. obikmermatch --reference
/nonexistent.fasta exited 0 without a word (the error was answered with an empty reference set).`,
		Run: func(c *Ctx, s *Sink) {
			c.EachFunc([]string{"pkg", "cmd"}, func(p *packages.Package, fd *ast.FuncDecl) {
				info := p.TypesInfo
				n := 0
				var stack []ast.Node
				ast.Inspect(fd.Body, func(nd ast.Node) bool {
					if nd == nil {
						stack = stack[:len(stack)-1]
						return true
					}
					stack = append(stack, nd)
					call, ok := nd.(*ast.CallExpr)
					if !ok || !strings.HasSuffix(fullName(callee(info, call)), "/pkg/obitools/obiconvert.ExpandListOfFiles") {
						return true
					}
					n++
					key := fmt.Sprintf("%s:ExpandListOfFiles#%d:error-consumed", funcName(p, fd), n)
					ok2, why := readErrorDisposition(info, fd, stack, call)
					if ok2 {
						s.Pass(nil, key, call.Pos(), why)
					} else {
						s.Fail(nil, key, call.Pos(), "the files named by the user: "+why+" — obikmermatch --reference /nonexistent.fasta exits 0 without a word, with an empty set of references")
					}
					return true
				})
			})
		},
	})
}
