package main

// PMK — the keys and positions of "pairing_mismatches" under reverse complement and circular windows (C07).

import (
	"go/ast"
	"go/token"
	"go/types"
	"strings"
)

func init() {
	register(&Rule{
		ID: "PMK", Props: []string{"C07"}, Min: 3,
		Doc: `"reverse-complementing twice restores the record" and "the reverse complement of a subsequence is the mirrored subsequence of the reverse complement", for the position-bearing annotation.
In obiseq._revcmpMutation (1) the text of a key is not indexed at constant positions unless what is indexed has been tested (nil / length) in a returning branch before: a key that is not
exactly (X:qq)->(Y:qq) — a user attribute, a three-digit score — made ReverseComplement panic (index out of range [9] with length 1) or garbled the key; (2) the function through which the
letters of the key are complemented restores their case (nucComplement alone forces lower case: the pairing writes (G:40)->(A:20), one reverse complement gave (t:20)->(c:40) and two gave
(g:40)->(a:20), not the original). In obiseq._subseqMutation (3) a position is stored only where it is shown to occur once in the window (q + srclen > len(window), by linear arithmetic over the
enclosing tests): a circular window longer than its source holds a mismatch several times, a single integer cannot say so, and rc(sub(s)) and sub(rc(s)) kept different occurrences.`,
		Run: runPMK,
	})
}

func runPMK(c *Ctx, s *Sink) {
	fd, p := c.FindFunc("pkg/obiseq", "(*BioSequence)._revcmpMutation")
	if fd == nil {
		s.Undecided(nil, "pkg/obiseq.(*BioSequence)._revcmpMutation", 0, "function not found")
	} else {
		info := p.TypesInfo
		// the closure transforming a key: a func(string) string literal
		var lit *ast.FuncLit
		ast.Inspect(fd.Body, func(n ast.Node) bool {
			if l, ok := n.(*ast.FuncLit); ok && l.Type.Params.NumFields() == 1 && l.Type.Results != nil {
				if b, ok := info.TypeOf(l.Type.Params.List[0].Type).(*types.Basic); ok && b.Kind() == types.String {
					lit = l
				}
			}
			return true
		})
		key := "pkg/obiseq.(*BioSequence)._revcmpMutation:key-parsed"
		if lit == nil {
			s.Undecided(nil, key, fd.Pos(), "no closure transforming a key")
		} else {
			bad := token.NoPos
			ast.Inspect(lit.Body, func(n ast.Node) bool {
				ix, ok := n.(*ast.IndexExpr)
				if !ok {
					return true
				}
				if _, isC := constInt(info, ix.Index); !isC {
					return true
				}
				id, ok := ast.Unparen(ix.X).(*ast.Ident)
				if !ok {
					return true
				}
				// guarded: an earlier if of the closure tests this identifier and returns
				guarded := false
				for _, st := range lit.Body.List {
					if st.End() > ix.Pos() {
						break
					}
					if ifs, ok := st.(*ast.IfStmt); ok && strings.Contains(types.ExprString(ifs.Cond), id.Name) {
						if n := len(ifs.Body.List); n > 0 {
							if _, isRet := ifs.Body.List[n-1].(*ast.ReturnStmt); isRet {
								guarded = true
							}
						}
					}
				}
				if !guarded && !bad.IsValid() {
					bad = ix.Pos()
				}
				return true
			})
			if bad.IsValid() {
				s.Fail(nil, key, bad, "the key is indexed at a constant position without any test of its shape: a key that is not exactly (X:qq)->(Y:qq) makes every reverse complement of the record panic ({\"pairing_mismatches\":{\"x\":1}} | obicomplement: index out of range [9] with length 1), and (A:100)->(C:25) is silently garbled")
			} else {
				s.Pass(nil, key, lit.Pos(), "the key is parsed, and left as it is when it has another shape")
			}
		}
		key = "pkg/obiseq.(*BioSequence)._revcmpMutation:key-case-kept"
		// every call of nucComplement in the function lies in a function literal (or the function itself) that holds a case restoration
		ncalls, unrestored := 0, token.NoPos
		var stack []ast.Node
		ast.Inspect(fd.Body, func(n ast.Node) bool {
			if n == nil {
				stack = stack[:len(stack)-1]
				return true
			}
			stack = append(stack, n)
			call, ok := n.(*ast.CallExpr)
			if !ok {
				return true
			}
			if f := callee(info, call); f == nil || f.Name() != "nucComplement" {
				return true
			}
			ncalls++
			var scope ast.Node = fd.Body
			for k := len(stack) - 1; k >= 0; k-- {
				if l, ok := stack[k].(*ast.FuncLit); ok {
					scope = l.Body
					break
				}
			}
			restored := false
			ast.Inspect(scope, func(m ast.Node) bool {
				switch x := m.(type) {
				case *ast.AssignStmt:
					if x.Tok == token.AND_NOT_ASSIGN || x.Tok == token.SUB_ASSIGN {
						restored = true
					}
				case *ast.BinaryExpr:
					if x.Op == token.AND_NOT {
						restored = true
					}
				case *ast.CallExpr:
					if f := callee(info, x); f != nil && strings.HasPrefix(f.Name(), "ToUpper") {
						restored = true
					}
				}
				return true
			})
			if !restored && !unrestored.IsValid() {
				unrestored = call.Pos()
			}
			return true
		})
		switch {
		case unrestored.IsValid():
			s.Fail(nil, key, unrestored, "the letters of the key go through nucComplement, which forces lower case, and nothing restores their case: the pairing writes (G:40)->(A:20); after two reverse complements the record carries (g:40)->(a:20) — rc(rc(s)) != s, and a file mixes both spellings")
		default:
			s.Pass(nil, key, fd.Pos(), "the complement of a key letter is put back in the case of that letter")
		}
	}
	// (3)
	fd, p = c.FindFunc("pkg/obiseq", "(*BioSequence)._subseqMutation")
	key := "pkg/obiseq.(*BioSequence)._subseqMutation:single-occurrence"
	if fd == nil {
		s.Undecided(nil, key, 0, "function not found")
		return
	}
	info := p.TypesInfo
	params := flattenParams(fd.Type.Params)
	if len(params) < 2 {
		s.Undecided(nil, key, fd.Pos(), "parameters (shift, srclen) not found")
		return
	}
	srclen := info.ObjectOf(params[1])
	var loop *ast.RangeStmt
	ast.Inspect(fd.Body, func(n ast.Node) bool {
		if r, ok := n.(*ast.RangeStmt); ok && loop == nil {
			loop = r
		}
		return true
	})
	if loop == nil {
		s.Undecided(nil, key, fd.Pos(), "no loop over the mismatches")
		return
	}
	env := &linEnv{info: info, vars: map[types.Object]linForm{}, defs: map[types.Object][]ast.Expr{}, atoms: map[string]bool{}, lens: map[string]bool{}, elems: map[string]linForm{}}
	// lseq := sequence.Len() precedes the loop
	var pre []ast.Stmt
	for _, st := range fd.Body.List {
		if _, isIf := st.(*ast.IfStmt); isIf {
			break
		}
		pre = append(pre, st)
	}
	paths := linWalk([]linPath{{env: env}}, pre, func(linPath, ast.Stmt) {})
	nstore, ok := 0, true
	linWalk(paths, loop.Body.List, func(pth linPath, st ast.Stmt) {
		as, isAs := st.(*ast.AssignStmt)
		if !isAs || len(as.Lhs) != 1 {
			return
		}
		if _, isIx := ast.Unparen(as.Lhs[0]).(*ast.IndexExpr); !isIx {
			return
		}
		nstore++
		pth.env.cur = pth.sys
		q, ok1 := pth.env.form(as.Rhs[0], 0)
		var srcId *ast.Ident
		ast.Inspect(loop.Body, func(m ast.Node) bool {
			if id, isId := m.(*ast.Ident); isId && info.Uses[id] == srclen && srcId == nil {
				srcId = id
			}
			return true
		})
		var sl linForm
		ok2 := false
		if srcId != nil {
			sl, ok2 = pth.env.form(srcId, 0)
		}
		// the length of the window: the variable assigned from Len()
		var win linForm
		ok3 := false
		for o, f := range pth.env.vars {
			if o.Name() == "lseq" {
				win, ok3 = f, true
			}
		}
		if !ok1 || !ok2 || !ok3 || !pth.known().entails(linLE(win.add(lfConst(1), 1), q.add(sl, 1))) {
			ok = false
		}
	})
	switch {
	case nstore == 0:
		s.Undecided(nil, key, loop.Pos(), "no store of a translated position")
	case ok:
		s.Pass(nil, key, loop.Pos(), "a position is stored only where position + srclen exceeds the window: it occurs once")
	default:
		s.Fail(nil, key, loop.Pos(), "the first occurrence of a mismatch in the window is stored even when the window, longer than its circular source, holds it again srclen further: the reverse complement of the window and the window of the reverse complement keep different occurrences (source aacg, window of 6: rc(sub(s)) says 6, sub(rc(s)) says 2)")
	}
}
