package main

// XL — what is decided for one argument of the command line does not leak onto the following ones (C03).

import (
	"fmt"
	"go/ast"
	"go/token"
	"go/types"

	"golang.org/x/tools/go/packages"
)

func init() {
	register(&Rule{
		ID: "XL", Props: []string{"C03", "C16"}, Min: 1,
		Doc: `"an end-to-end command outputs exactly the records selected by its semantics", whatever the order of its arguments: in pkg/obitools/obiconvert, in a loop over the file names given to the
command, the function literal handed to filepath.Walk does not assign a boolean variable declared outside that loop: such a flag, set while an argument is visited, is still set for the
following arguments. ExpandListOfFiles switched its extension filter on when it met a directory (check_ext, its own parameter) and never off: 'obiconvert d1 reads.fa' read 1 record, 'obiconvert
reads.fa d1' read 3 — a file named explicitly after a directory was skipped without a word unless its name ends in fasta, fastq, seq, gb, dat or ecopcr (.fa, .fq, .fna, .xz, .bz2, .csv … lost).`,
		Run: func(c *Ctx, s *Sink) {
			n := 0
			c.EachFunc([]string{"pkg/obitools/obiconvert"}, func(p *packages.Package, fd *ast.FuncDecl) {
				info := p.TypesInfo
				ast.Inspect(fd.Body, func(nd ast.Node) bool {
					loop, ok := nd.(*ast.RangeStmt)
					if !ok {
						return true
					}
					ast.Inspect(loop.Body, func(m ast.Node) bool {
						call, ok := m.(*ast.CallExpr)
						if !ok || fullName(callee(info, call)) != "path/filepath.Walk" || len(call.Args) != 2 {
							return true
						}
						lit, ok := ast.Unparen(call.Args[1]).(*ast.FuncLit)
						if !ok {
							return true
						}
						n++
						key := fmt.Sprintf("%s:walk#%d:no-flag-carried-over", funcName(p, fd), n)
						var bad types.Object
						var at token.Pos
						ast.Inspect(lit.Body, func(q ast.Node) bool {
							as, ok := q.(*ast.AssignStmt)
							if !ok || as.Tok == token.DEFINE {
								return true
							}
							for _, l := range as.Lhs {
								id, ok := ast.Unparen(l).(*ast.Ident)
								if !ok {
									continue
								}
								o := info.ObjectOf(id)
								if o == nil || (o.Pos() >= loop.Pos() && o.Pos() < loop.End()) {
									continue
								}
								if b, ok := o.Type().Underlying().(*types.Basic); ok && b.Kind() == types.Bool && bad == nil {
									bad, at = o, as.Pos()
								}
							}
							return true
						})
						if bad != nil {
							s.Fail(nil, key, at, "the flag "+bad.Name()+", declared outside the loop over the arguments, is assigned while one argument is visited and never reset: once a directory has been met the extension filter applies to every later argument — 'obiconvert d1 reads.fa' silently drops reads.fa (1 record instead of 3; the other order reads the 3)")
						} else {
							s.Pass(nil, key, call.Pos(), "the visit of an argument sets no boolean declared outside the loop over the arguments")
						}
						return true
					})
					return true
				})
			})
		},
	})
}
