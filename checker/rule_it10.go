package main

// IT-10 — the remainder of an accumulation buffer is flushed (C03, C16, C01).
//
// Several stages fill a local slice record by record, push it when it is full and
// start a new one.  What is left in the slice when the input ends must be pushed
// after the loop: without it the last (size−1 at most) records of the stream
// vanish silently.

import (
	"fmt"
	"go/ast"
	"go/token"
	"go/types"
	"strings"

	"golang.org/x/tools/go/packages"
)

func init() {
	register(&Rule{
		ID: "IT-10", Props: []string{"C03", "C16", "C01", "C06"}, Min: 4,
		Doc: `final flush: wherever a slice variable declared outside a loop is appended to inside the loop and handed on (Push / channel send of an expression built from it) inside the loop
when a condition holds, the statements that follow the loop hand on the slice once more (normally under len(slice) > 0); otherwise the records accumulated since the last full batch are lost
when the input ends.`,
		Run: runIT10,
	})
}

func runIT10(c *Ctx, s *Sink) {
	c.EachFunc([]string{"pkg/obiiter", "pkg/obiformats", "pkg/obichunk", "pkg/obitools"}, func(p *packages.Package, fd *ast.FuncDecl) {
		info := p.TypesInfo
		fname := funcName(p, fd)
		mentions := func(n ast.Node, v types.Object) bool { return mentionsVar(info, n, v) }
		// handsOn: n is a Push call / channel send whose payload mentions v
		handsOn := func(n ast.Node, v types.Object) bool {
			switch x := n.(type) {
			case *ast.CallExpr:
				if sel, ok := x.Fun.(*ast.SelectorExpr); ok && sel.Sel.Name == "Push" {
					for _, a := range x.Args {
						if mentions(a, v) {
							return true
						}
					}
				}
			case *ast.SendStmt:
				return mentions(x.Value, v)
			}
			return false
		}
		seen := map[string]bool{}
		var visit func(list []ast.Stmt)
		visit = func(list []ast.Stmt) {
			for i, st := range list {
				var body *ast.BlockStmt
				switch x := st.(type) {
				case *ast.ForStmt:
					body = x.Body
				case *ast.RangeStmt:
					body = x.Body
				}
				if body != nil {
					// candidate buffers: appended in the loop, declared before it
					cands := map[types.Object]bool{}
					ast.Inspect(body, func(n ast.Node) bool {
						if _, ok := n.(*ast.FuncLit); ok {
							return false
						}
						as, ok := n.(*ast.AssignStmt)
						if !ok || len(as.Lhs) != 1 || len(as.Rhs) != 1 {
							return true
						}
						id, ok := ast.Unparen(as.Lhs[0]).(*ast.Ident)
						if !ok {
							return true
						}
						call, ok := ast.Unparen(as.Rhs[0]).(*ast.CallExpr)
						if !ok {
							return true
						}
						if fid, ok := call.Fun.(*ast.Ident); !ok || fid.Name != "append" || len(call.Args) < 2 {
							return true
						}
						v := info.ObjectOf(id)
						if v == nil || rootObj(info, call.Args[0]) != v {
							return true
						}
						if v.Pos() >= st.Pos() && v.Pos() < st.End() {
							return true // declared inside the loop
						}
						if _, isSlice := v.Type().Underlying().(*types.Slice); isSlice {
							cands[v] = true
						}
						return true
					})
					for v := range cands {
						inLoop := false
						ast.Inspect(body, func(n ast.Node) bool {
							if _, ok := n.(*ast.FuncLit); ok {
								return false
							}
							if handsOn(n, v) {
								inLoop = true
							}
							return true
						})
						if !inLoop {
							continue
						}
						key := fmt.Sprintf("%s:flush:%s", fname, v.Name())
						if seen[key] {
							continue
						}
						seen[key] = true
						after := false
						for _, later := range list[i+1:] {
							ast.Inspect(later, func(n ast.Node) bool {
								if _, ok := n.(*ast.FuncLit); ok {
									return false
								}
								if handsOn(n, v) {
									after = true
								}
								return true
							})
						}
						if after {
							s.Pass(nil, key, st.Pos(), "the buffer is handed on once more after the loop")
						} else {
							s.Fail(nil, key, st.Pos(), "the slice "+v.Name()+" is filled and handed on inside the loop when it is full, but never after the loop: the records accumulated since the last full batch are dropped when the input ends")
						}
					}
					visit(body.List)
					continue
				}
				// descend
				switch x := st.(type) {
				case *ast.BlockStmt:
					visit(x.List)
				case *ast.IfStmt:
					visit(x.Body.List)
					if eb, ok := x.Else.(*ast.BlockStmt); ok {
						visit(eb.List)
					}
				case *ast.GoStmt:
					if fl, ok := x.Call.Fun.(*ast.FuncLit); ok {
						visit(fl.Body.List)
					}
				case *ast.AssignStmt:
					for _, r := range x.Rhs {
						if fl, ok := ast.Unparen(r).(*ast.FuncLit); ok {
							visit(fl.Body.List)
						}
					}
				case *ast.ExprStmt:
					if call, ok := x.X.(*ast.CallExpr); ok {
						if fl, ok := call.Fun.(*ast.FuncLit); ok {
							visit(fl.Body.List)
						}
					}
				}
			}
		}
		visit(fd.Body.List)
		_ = strings.Contains
		_ = token.NoPos
	})
}
