package main

// NE — what a reader function returns with its error is not used before the error is looked at (C03, C01).

import (
	"fmt"
	"go/ast"
	"go/types"
	"strings"

	"golang.org/x/tools/go/packages"
)

func init() {
	register(&Rule{
		ID: "NE", Props: []string{"C03", "C01"}, Min: 10,
		Doc: `"every command terminates normally on every accepted input": in pkg/obiformats, when a call returns a pointer (or an interface, a map, a slice holder) together with an error — v, err
= f(…) — no statement between that assignment and the first statement that reads err calls a method of v or reads one of its fields. The ecoPCR reader did 'seq, err = read(); seq.SetSource(…)'
and tested err afterwards in the loop condition: at the end of the data — always reached, also for an empty file — seq is nil, the command died with a nil pointer dereference before its
last batch was pushed and wrote nothing (obiconvert e3.ecopcr, 3 records: panic, 0 record written). One obligation per such assignment.`,
		Run: func(c *Ctx, s *Sink) {
			c.EachFunc([]string{"pkg/obiformats"}, func(p *packages.Package, fd *ast.FuncDecl) {
				info := p.TypesInfo
				n := 0
				var checkList func(list []ast.Stmt)
				checkList = func(list []ast.Stmt) {
					for i, st := range list {
						as, ok := st.(*ast.AssignStmt)
						if !ok || len(as.Lhs) != 2 || len(as.Rhs) != 1 {
							continue
						}
						if _, isCall := ast.Unparen(as.Rhs[0]).(*ast.CallExpr); !isCall {
							continue
						}
						v, e := rootObj(info, as.Lhs[0]), rootObj(info, as.Lhs[1])
						if v == nil || e == nil || !isErrorType(e.Type()) {
							continue
						}
						switch v.Type().Underlying().(type) {
						case *types.Pointer, *types.Interface:
						default:
							continue
						}
						n++
						key := fmt.Sprintf("%s:%s#%d:not-used-before-its-error", funcName(p, fd), v.Name(), n)
						bad := ast.Node(nil)
						for _, nx := range list[i+1:] {
							readsErr, usesV := false, ast.Node(nil)
							// only the part evaluated first matters for compound statements: their header
							var head ast.Node = nx
							switch x := nx.(type) {
							case *ast.IfStmt:
								head = x.Cond
								if x.Init != nil {
									head = x.Init
								}
							case *ast.ForStmt:
								if x.Cond != nil {
									head = x.Cond
								}
							}
							ast.Inspect(head, func(m ast.Node) bool {
								switch y := m.(type) {
								case *ast.Ident:
									if info.Uses[y] == e {
										readsErr = true
									}
								case *ast.SelectorExpr:
									if id, ok := ast.Unparen(y.X).(*ast.Ident); ok && info.Uses[id] == v && usesV == nil {
										usesV = y
									}
								}
								return true
							})
							if usesV != nil && !readsErr {
								bad = usesV
							}
							if readsErr || bad != nil {
								break
							}
							// any other mention of err in the statement (a nested test) also ends the window
							inner := false
							ast.Inspect(nx, func(m ast.Node) bool {
								if id, ok := m.(*ast.Ident); ok && info.Uses[id] == e {
									inner = true
								}
								return true
							})
							if inner {
								break
							}
						}
						if bad != nil {
							s.Fail(nil, key, bad.Pos(), v.Name()+" is used before the error returned with it is looked at: on the error path (the end of the data) it is nil — the ecoPCR reader dereferences it at the end of every input, the command dies (nil pointer dereference) before its last batch is pushed and writes nothing")
						} else {
							s.Pass(nil, key, as.Pos(), "nothing reads "+v.Name()+" before the error is looked at")
						}
					}
					for _, st := range list {
						ast.Inspect(st, func(m ast.Node) bool {
							switch x := m.(type) {
							case *ast.BlockStmt:
								checkList(x.List)
								return false
							case *ast.CaseClause:
								checkList(x.Body)
								return false
							case *ast.FuncLit:
								checkList(x.Body.List)
								return false
							}
							return true
						})
					}
				}
				checkList(fd.Body.List)
			})
		},
	})
}

func init() {
	register(&Rule{
		ID: "RO", Props: []string{"C17", "C03"}, Min: 5,
		Doc: `sibling agreement of the file readers: every function Read…FromFile of pkg/obiformats opens its file through Ropen (the function that recognises gzip, bzip2, xz and zstd from their magic
number without consuming the stream, and reports an empty file) — none opens it with os.Open and probes a codec itself. ReadEcoPCRFromFile called gzip.NewReader on the bare file: on a plain
file the probe consumed the first 4 kB, i.e. the whole header, and the header loop of the reader then span for ever on the end of the file (obiconvert --ecopcr FILE never terminated), while
bzip2, xz and zstd files were not recognised at all.`,
		Run: func(c *Ctx, s *Sink) {
			c.EachFunc([]string{"pkg/obiformats"}, func(p *packages.Package, fd *ast.FuncDecl) {
				name := fd.Name.Name
				if len(name) < 12 || name[:4] != "Read" || name[len(name)-8:] != "FromFile" || fd.Recv != nil {
					return
				}
				info := p.TypesInfo
				key := funcName(p, fd) + ":opened-through-Ropen"
				ropen, raw := false, ""
				var visit func(body ast.Node, depth int)
				visit = func(body ast.Node, depth int) {
					ast.Inspect(body, func(n ast.Node) bool {
						call, ok := n.(*ast.CallExpr)
						if !ok {
							return true
						}
						f := callee(info, call)
						if f == nil || f.Pkg() == nil {
							return true
						}
						switch {
						case f.Name() == "Ropen" && rel(f.Pkg().Path()) == "pkg/obiformats":
							ropen = true
						case fullName(f) == "os.Open" || fullName(f) == "os.OpenFile":
							raw = fullName(f)
						case rel(f.Pkg().Path()) == "pkg/obiformats" && depth < 2:
							if d, dp := c.DeclOf(f); d != nil && d.Body != nil && dp == p && d != fd {
								visit(d.Body, depth+1)
							}
						}
						return true
					})
				}
				visit(fd.Body, 0)
				switch {
				case raw != "":
					s.Fail(nil, key, fd.Pos(), "the file is opened with "+raw+" and the reader probes the compression itself instead of going through Ropen like its siblings: the probe consumes the beginning of a plain file (obiconvert --ecopcr FILE never terminates: the header has been eaten and the header loop spins on the end of the file) and the other codecs are not recognised")
				case ropen:
					s.Pass(nil, key, fd.Pos(), "opened through Ropen")
				default:
					s.Pass(nil, key, fd.Pos(), "does not open the file itself (delegates to a sibling)")
				}
			})
		},
	})
}

func init() {
	register(&Rule{
		ID: "ED", Props: []string{"C17", "C05", "C03"}, Min: 1,
		Doc: `"any read error other than a clean end of file is fatal" — before the stream is declared finished: in pkg/obiformats, in a function literal that ends an iterator (a call of Done() on an
IBioSequence) and tests an error against io.EOF in a branch ending the program, that branch stands before the call of Done(): once Done() is called the downstream pipeline may complete and
the process exit with status 0 while the reader is still on its way to report the error. The ecoPCR reader called Done() and then log.Panicf: a file with a malformed record in the middle gave,
with --batch-size 1 or 7, status 0 and the 30 records read so far in one run out of twenty, status 2 in the others.`,
		Run: func(c *Ctx, s *Sink) {
			n := 0
			c.EachFunc([]string{"pkg/obiformats"}, func(p *packages.Package, fd *ast.FuncDecl) {
				info := p.TypesInfo
				ast.Inspect(fd.Body, func(nd ast.Node) bool {
					lit, ok := nd.(*ast.FuncLit)
					if !ok {
						return true
					}
					var done, report ast.Node
					for _, st := range lit.Body.List {
						ast.Inspect(st, func(m ast.Node) bool {
							switch x := m.(type) {
							case *ast.FuncLit:
								return false
							case *ast.CallExpr:
								if f := callee(info, x); f != nil && f.Name() == "Done" && strings.HasSuffix(fullName(f), "IBioSequence).Done") && done == nil {
									done = st
								}
							case *ast.IfStmt:
								if strings.Contains(types.ExprString(x.Cond), "io.EOF") && leavesWithError(info, x.Body) && report == nil {
									report = st
								}
							}
							return true
						})
					}
					if done == nil || report == nil {
						return true
					}
					n++
					key := fmt.Sprintf("%s:reader#%d:error-before-Done", funcName(p, fd), n)
					if report.Pos() > done.Pos() {
						s.Fail(nil, key, report.Pos(), "the read error is reported after Done(): the stream is declared finished first, the pipeline may complete and the process exit with status 0 and the records read so far — a malformed record in the middle of an ecoPCR file: status 0 and 30 of 34 records in 7 runs of 150 with --batch-size 1, status 2 in the others")
					} else {
						s.Pass(nil, key, report.Pos(), "a read error ends the program before the stream is ended")
					}
					return true
				})
			})
			if n == 0 {
				s.Undecided(nil, "pkg/obiformats:error-before-Done", 0, "no reader literal with both an io.EOF test and a Done()")
			}
		},
	})
}
