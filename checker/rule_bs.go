package main

// BS — the batch size reaching the re-batching loops is positive (C03).

import (
	"go/ast"
	"go/token"
	"go/types"
	"strings"

	"golang.org/x/tools/go/packages"
)

func init() {
	register(&Rule{
		ID: "BS", Props: []string{"C03", "C13"}, Min: 2,
		Doc: `every command terminates for every accepted configuration: Rebatch fills batches of 'size' records and makes progress only when size >= 1 (with 0 it pushes empty batches for ever and never
delivers a record; every FilterOn, PairTo, fragmenting and obiclean path goes through it). The variable the option --batch-size is bound to (second argument "batch-size" of IntVar, identified through
the address passed) is therefore compared with a positive bound in the option processing of pkg/obioptions (X < 1, X <= 0 or the symmetric forms) in a branch that ends the program. The same holds for --max-cpu, which sizes every pool of workers: with 0,
CLIParallelWorkers() is 0, obiclean starts no comparison worker, its feeding goroutine blocks for ever and every sequence is declared a singleton with exit status 0 (2829 of 3000 records lose
their h/i status); with -1 the program dies on 'sync: negative WaitGroup counter'.`,
		Run: runBS,
	})
}

func runBS(c *Ctx, s *Sink) {
	for _, o := range []struct{ opt, slug, fail string }{
		{"batch-size", "batch-size-positive", "--batch-size is accepted whatever its value: with 0, Rebatch computes to_push = 0 on every turn, pushes an endless stream of empty batches and never delivers a record (obigrep --batch-size 0 -l 10 spins for ever; every FilterOn, PairTo, fragmenting and obiclean path goes through Rebatch)"},
		{"max-cpu", "max-cpu-positive", "--max-cpu (OBIMAXCPU) is accepted whatever its value: with 0 no computing worker is started — obiclean compares nothing, leaves its feeding goroutine blocked and calls every sequence a singleton, exit 0 (two sequences: a=h b=i with --max-cpu 2, a=s b=s with --max-cpu 0); with -1 the program dies on a negative WaitGroup counter"},
	} {
		runBSOne(c, s, o.opt, o.slug, o.fail)
	}
}

func runBSOne(c *Ctx, s *Sink, optName, slug, failMsg string) {
	p := c.Pkg("pkg/obioptions")
	key := "pkg/obioptions:" + slug
	if p == nil {
		s.Undecided(nil, key, 0, "package not loaded")
		return
	}
	info := p.TypesInfo
	var bound types.Object
	var at token.Pos
	for _, f := range p.Syntax {
		ast.Inspect(f, func(n ast.Node) bool {
			call, ok := n.(*ast.CallExpr)
			if !ok || len(call.Args) < 2 {
				return true
			}
			if tv, ok := info.Types[call.Args[1]]; ok && tv.Value != nil && tv.Value.ExactString() == `"`+optName+`"` {
				if u, ok := ast.Unparen(call.Args[0]).(*ast.UnaryExpr); ok && u.Op == token.AND {
					bound = rootObj(info, u.X)
					at = call.Pos()
				}
			}
			return true
		})
	}
	if bound == nil {
		s.Undecided(nil, key, 0, "no option named "+optName+" bound to a variable")
		return
	}
	validated := false
	for _, f := range p.Syntax {
		ast.Inspect(f, func(n ast.Node) bool {
			ifs, ok := n.(*ast.IfStmt)
			if !ok {
				return true
			}
			for _, cj := range conjuncts(ifs.Cond) {
				b, ok := ast.Unparen(cj).(*ast.BinaryExpr)
				if !ok {
					continue
				}
				x, y, op := b.X, b.Y, b.Op
				if rootObj(info, y) == bound {
					x, y = y, x
					op = map[token.Token]token.Token{token.LSS: token.GTR, token.GTR: token.LSS, token.LEQ: token.GEQ, token.GEQ: token.LEQ}[op]
				}
				if id, isId := ast.Unparen(x).(*ast.Ident); !isId || info.ObjectOf(id) != bound {
					continue
				}
				v, isConst := constInt(info, y)
				if !isConst {
					continue
				}
				if (op == token.LSS && v >= 1) || (op == token.LEQ && v >= 0) {
					// the branch ends the program
					ends := false
					ast.Inspect(ifs.Body, func(m ast.Node) bool {
						if call, ok := m.(*ast.CallExpr); ok {
							if fn := callee(info, call); fn != nil && (strings.HasPrefix(fn.Name(), "Fatal") || strings.HasPrefix(fn.Name(), "Panic") || (fn.Pkg() != nil && fn.Pkg().Path() == "os" && fn.Name() == "Exit")) {
								ends = true
							}
						}
						return true
					})
					if ends {
						validated = true
					}
				}
			}
			return true
		})
	}
	if validated {
		s.Pass(nil, key, at, "the variable bound to --"+optName+" is refused below 1 before any pipeline is built")
	} else {
		s.Fail(nil, key, at, failMsg)
	}
}

var _ = packages.NeedName
