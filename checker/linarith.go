package main

// A small linear-arithmetic domain: conjunctions of constraints Σ a_i·x_i + c <= 0
// over integer atoms, decided by Fourier–Motzkin elimination over the
// rationals (infeasible over Q ⇒ infeasible over Z, so a proved entailment is
// sound; an unproved one is reported, never assumed).  Paths through
// loop-free statement lists are enumerated with an environment mapping local
// integer variables to affine forms over the atoms.

import (
	"fmt"
	"go/ast"
	"go/token"
	"go/types"
	"math/big"
	"sort"
	"strings"
)

type linForm struct {
	co map[string]int64
	c  int64
}

func lfConst(c int64) linForm { return linForm{co: map[string]int64{}, c: c} }
func lfAtom(a string) linForm { return linForm{co: map[string]int64{a: 1}} }
func (a linForm) add(b linForm, sign int64) linForm {
	r := linForm{co: map[string]int64{}, c: a.c + sign*b.c}
	for k, v := range a.co {
		r.co[k] = v
	}
	for k, v := range b.co {
		r.co[k] += sign * v
		if r.co[k] == 0 {
			delete(r.co, k)
		}
	}
	return r
}
func (a linForm) scale(s int64) linForm {
	r := linForm{co: map[string]int64{}, c: a.c * s}
	if s != 0 {
		for k, v := range a.co {
			r.co[k] = v * s
		}
	}
	return r
}
func (a linForm) isConst() bool { return len(a.co) == 0 }
func (a linForm) String() string {
	var ks []string
	for k := range a.co {
		ks = append(ks, k)
	}
	sort.Strings(ks)
	var sb strings.Builder
	for _, k := range ks {
		v := a.co[k]
		switch {
		case v == 1:
			sb.WriteString("+" + k)
		case v == -1:
			sb.WriteString("-" + k)
		default:
			sb.WriteString(itoaSigned(v) + "*" + k)
		}
	}
	if a.c != 0 || sb.Len() == 0 {
		sb.WriteString(itoaSigned(a.c))
	}
	return strings.TrimPrefix(sb.String(), "+")
}
func itoaSigned(v int64) string {
	if v >= 0 {
		return "+" + big.NewInt(v).String()
	}
	return big.NewInt(v).String()
}

// linLE: f <= 0
type linSys []linForm

// le: a <= b ; lt: a < b (integers: a - b + 1 <= 0)
func linLE(a, b linForm) linForm { return a.add(b, -1) }
func linLT(a, b linForm) linForm { return a.add(b, -1).add(lfConst(1), 1) }

// infeasible decides (soundly: true only if really infeasible) whether the
// system has no rational solution.
func (s linSys) infeasible() bool {
	type row struct {
		co map[string]*big.Rat
		c  *big.Rat
	}
	var rows []row
	for _, f := range s {
		r := row{co: map[string]*big.Rat{}, c: new(big.Rat).SetInt64(f.c)}
		for k, v := range f.co {
			if v != 0 {
				r.co[k] = new(big.Rat).SetInt64(v)
			}
		}
		rows = append(rows, r)
	}
	for iter := 0; iter < 64; iter++ {
		// constant rows
		var vars = map[string]bool{}
		for _, r := range rows {
			if len(r.co) == 0 && r.c.Sign() > 0 {
				return true
			}
			for k := range r.co {
				vars[k] = true
			}
		}
		if len(vars) == 0 {
			return false
		}
		// pick the variable with the fewest pos*neg products
		var best string
		bestCost := -1
		var names []string
		for k := range vars {
			names = append(names, k)
		}
		sort.Strings(names)
		for _, k := range names {
			pos, neg := 0, 0
			for _, r := range rows {
				if v, ok := r.co[k]; ok {
					if v.Sign() > 0 {
						pos++
					} else {
						neg++
					}
				}
			}
			if cost := pos * neg; bestCost < 0 || cost < bestCost {
				best, bestCost = k, cost
			}
		}
		var pos, neg, rest []row
		for _, r := range rows {
			if v, ok := r.co[best]; ok {
				if v.Sign() > 0 {
					pos = append(pos, r)
				} else {
					neg = append(neg, r)
				}
			} else {
				rest = append(rest, r)
			}
		}
		for _, p := range pos {
			for _, n := range neg {
				// p/|a_p| + n/|a_n|
				ap := new(big.Rat).Set(p.co[best])
				an := new(big.Rat).Neg(n.co[best])
				nr := row{co: map[string]*big.Rat{}, c: new(big.Rat)}
				nr.c.Add(new(big.Rat).Quo(p.c, ap), new(big.Rat).Quo(n.c, an))
				for k, v := range p.co {
					if k != best {
						nr.co[k] = new(big.Rat).Quo(v, ap)
					}
				}
				for k, v := range n.co {
					if k != best {
						t := new(big.Rat).Quo(v, an)
						if old, ok := nr.co[k]; ok {
							t.Add(t, old)
						}
						if t.Sign() == 0 {
							delete(nr.co, k)
						} else {
							nr.co[k] = t
						}
					}
				}
				rest = append(rest, nr)
			}
		}
		if len(rest) > 4000 {
			return false
		}
		rows = rest
	}
	return false
}

// entails: sys ⊨ f <= 0  (sys ∧ f >= 1 infeasible)
func (s linSys) entails(f linForm) bool {
	neg := f.scale(-1).add(lfConst(1), 1) // -f + 1 <= 0  ⇔ f >= 1
	return append(append(linSys{}, s...), neg).infeasible()
}

// linEnv converts expressions to affine forms.
type linEnv struct {
	maxPaths int // paths kept by linWalk before it gives up (0: 256)
	info  *types.Info
	vars  map[types.Object]linForm // current affine value of locals
	defs  map[types.Object][]ast.Expr
	atoms map[string]bool
	lens  map[string]bool // atoms known to be >= 0 (lengths)
	// elements of small local arrays addressed with constant indexes: "name[i]" -> affine value
	elems map[string]linForm
	// facts about atoms introduced while evaluating expressions (remainders), part of what is known on the path
	facts linSys
	// cur: the constraints of the path being extended, set by linWalk before it evaluates expressions (used to decide the
	// sign of a dividend)
	cur linSys
	// decl, when set, gives the declaration of a function: niladic one-line getters (return <expr>) are then read
	// through; fields are atoms named by their selector path from the variable they are reached from
	decl func(f *types.Func) (*ast.FuncDecl, *types.Info)
	// alias: inside a getter read through, the name of its receiver stands for this expression of the caller
	alias map[string]string
	// prefix distinguishes the atoms standing for the unknown locals of an inlined callee from the caller's
	prefix string
	// onCond, when set, is called with the state of the path each time the condition of an if statement is about to be
	// evaluated (the visit callback of linWalk only sees the statements that are not branches)
	onCond func(p linPath, cond ast.Expr)
}

func (e *linEnv) clone() *linEnv {
	n := &linEnv{info: e.info, vars: map[types.Object]linForm{}, defs: e.defs, atoms: e.atoms, lens: e.lens, elems: map[string]linForm{}, decl: e.decl, alias: e.alias, prefix: e.prefix, onCond: e.onCond, maxPaths: e.maxPaths}
	n.facts = append(linSys{}, e.facts...)
	for k, v := range e.vars {
		n.vars[k] = v
	}
	for k, v := range e.elems {
		n.elems[k] = v
	}
	return n
}

func (e *linEnv) form(x ast.Expr, depth int) (linForm, bool) {
	x = ast.Unparen(x)
	if v, ok := constInt(e.info, x); ok {
		return lfConst(v), true
	}
	switch t := x.(type) {
	case *ast.Ident:
		if t.Name == "true" || t.Name == "false" {
			if _, isConst := e.info.ObjectOf(t).(*types.Const); isConst {
				if t.Name == "true" {
					return lfConst(1), true
				}
				return lfConst(0), true
			}
		}
		o := e.info.ObjectOf(t)
		if f, ok := e.vars[o]; ok {
			return f, true
		}
		if v, isVar := o.(*types.Var); isVar {
			if b, ok := v.Type().Underlying().(*types.Basic); ok && b.Kind() == types.Bool {
				e.atoms[e.prefix+t.Name] = true
				return lfAtom(e.prefix + t.Name), true
			}
		}
		if ds := e.defs[o]; len(ds) == 1 && ds[0] != nil && depth < 4 {
			if f, ok := e.form(ds[0], depth+1); ok {
				return f, true
			}
		}
		if _, isVar := o.(*types.Var); isVar {
			if b, ok := o.Type().Underlying().(*types.Basic); ok && b.Info()&types.IsInteger != 0 {
				e.atoms[e.prefix+t.Name] = true
				return lfAtom(e.prefix + t.Name), true
			}
		}
	case *ast.SelectorExpr:
		if a, ok := e.fieldAtom(t); ok {
			return lfAtom(a), true
		}
	case *ast.CallExpr:
		if ret, rinfo, al := e.getter(t); ret != nil {
			sub := &linEnv{info: rinfo, vars: map[types.Object]linForm{}, defs: map[types.Object][]ast.Expr{}, atoms: e.atoms, lens: e.lens, elems: map[string]linForm{}, decl: e.decl, cur: e.cur, facts: e.facts, alias: al}
			if f, ok := sub.form(ret, depth+1); ok {
				e.facts = sub.facts
				return f, true
			}
		}
		if sel, ok := t.Fun.(*ast.SelectorExpr); ok && sel.Sel.Name == "Len" && len(t.Args) == 0 {
			a := "|" + types.ExprString(sel.X) + "|"
			e.atoms[a], e.lens[a] = true, true
			return lfAtom(a), true
		}
		if id, ok := t.Fun.(*ast.Ident); ok && id.Name == "len" && len(t.Args) == 1 {
			a := "|" + types.ExprString(t.Args[0]) + "|"
			e.atoms[a], e.lens[a] = true, true
			return lfAtom(a), true
		}
		if tv, ok := e.info.Types[t.Fun]; ok && tv.IsType() && len(t.Args) == 1 {
			return e.form(t.Args[0], depth)
		}
	case *ast.IndexExpr:
		// element of a local array with a constant index
		if id, ok := ast.Unparen(t.X).(*ast.Ident); ok {
			if k, ok := constInt(e.info, t.Index); ok {
				if _, isArr := e.info.TypeOf(t.X).Underlying().(*types.Array); isArr {
					key := fmt.Sprintf("%s[%d]", id.Name, k)
					if f, ok := e.elems[key]; ok {
						return f, true
					}
					e.atoms[key] = true
					return lfAtom(key), true
				}
			}
		}
	case *ast.BinaryExpr:
		l, ok1 := e.form(t.X, depth)
		r, ok2 := e.form(t.Y, depth)
		if !ok1 || !ok2 {
			return linForm{}, false
		}
		switch t.Op {
		case token.ADD:
			return l.add(r, 1), true
		case token.SUB:
			return l.add(r, -1), true
		case token.MUL:
			if l.isConst() {
				return r.scale(l.c), true
			}
			if r.isConst() {
				return l.scale(r.c), true
			}
		case token.REM:
			// x % m, m a length or a positive constant: evaluation continues only when m != 0, hence m >= 1;
			// |x % m| <= m-1 and the remainder has the sign of x (Go truncated division)
			pos := r.isConst() && r.c > 0
			if len(r.co) == 1 && r.c == 0 {
				for a, k := range r.co {
					if k == 1 && e.lens[a] {
						pos = true
					}
				}
			}
			if !pos {
				return linForm{}, false
			}
			a := fmt.Sprintf("rem@%d", t.Pos())
			e.atoms[a] = true
			rem := lfAtom(a)
			known := append(append(linSys{}, e.cur...), e.facts...)
			for at := range e.lens {
				known = append(known, lfAtom(at).scale(-1))
			}
			e.facts = append(e.facts, linLE(lfConst(1), r), linLE(rem, r.add(lfConst(1), -1)), linLE(r.scale(-1).add(lfConst(1), 1), rem))
			if known.entails(linLE(lfConst(0), l)) {
				e.facts = append(e.facts, linLE(lfConst(0), rem))
			}
			if known.entails(linLE(l, lfConst(0))) {
				e.facts = append(e.facts, linLE(rem, lfConst(0)))
			}
			return rem, true
		}
	case *ast.UnaryExpr:
		if t.Op == token.SUB {
			if f, ok := e.form(t.X, depth); ok {
				return f.scale(-1), true
			}
		}
	}
	return linForm{}, false
}

// cond converts a condition (or its negation) into a disjunction of
// conjunctions of constraints; ok=false when some leaf is not linear (the leaf
// is then dropped, which only weakens what is known — sound for entailment).
func (e *linEnv) cond(x ast.Expr, neg bool) []linSys {
	x = ast.Unparen(x)
	if id, ok := x.(*ast.Ident); ok {
		if tv, ok := e.info.Types[id]; ok && tv.Type != nil {
			if b, ok := tv.Type.Underlying().(*types.Basic); ok && b.Kind() == types.Bool {
				if f, ok := e.form(id, 0); ok {
					if neg {
						return []linSys{{linLE(f, lfConst(0))}} // flag == 0
					}
					return []linSys{{linLE(lfConst(1), f)}} // flag == 1
				}
			}
		}
	}
	switch t := x.(type) {
	case *ast.SelectorExpr:
		if a, ok := e.fieldAtom(t); ok {
			if neg {
				return []linSys{{linLE(lfAtom(a), lfConst(0))}}
			}
			return []linSys{{linLE(lfConst(1), lfAtom(a))}}
		}
	case *ast.CallExpr:
		if ret, rinfo, al := e.getter(t); ret != nil {
			sub := &linEnv{info: rinfo, vars: map[types.Object]linForm{}, defs: map[types.Object][]ast.Expr{}, atoms: e.atoms, lens: e.lens, elems: map[string]linForm{}, decl: e.decl, cur: e.cur, facts: e.facts, alias: al}
			return sub.cond(ret, neg)
		}
	case *ast.UnaryExpr:
		if t.Op == token.NOT {
			return e.cond(t.X, !neg)
		}
	case *ast.BinaryExpr:
		switch t.Op {
		case token.LAND, token.LOR:
			and := (t.Op == token.LAND) != neg
			l, r := e.cond(t.X, neg), e.cond(t.Y, neg)
			if and {
				var out []linSys
				for _, a := range l {
					for _, b := range r {
						out = append(out, append(append(linSys{}, a...), b...))
					}
				}
				return out
			}
			return append(l, r...)
		case token.LSS, token.LEQ, token.GTR, token.GEQ, token.EQL, token.NEQ:
			a, ok1 := e.form(t.X, 0)
			b, ok2 := e.form(t.Y, 0)
			if !ok1 || !ok2 {
				return []linSys{{}}
			}
			op := t.Op
			if neg {
				op = map[token.Token]token.Token{token.LSS: token.GEQ, token.LEQ: token.GTR, token.GTR: token.LEQ, token.GEQ: token.LSS, token.EQL: token.NEQ, token.NEQ: token.EQL}[op]
			}
			switch op {
			case token.LSS:
				return []linSys{{linLT(a, b)}}
			case token.LEQ:
				return []linSys{{linLE(a, b)}}
			case token.GTR:
				return []linSys{{linLT(b, a)}}
			case token.GEQ:
				return []linSys{{linLE(b, a)}}
			case token.EQL:
				return []linSys{{linLE(a, b), linLE(b, a)}}
			case token.NEQ:
				return []linSys{{linLT(a, b)}, {linLT(b, a)}}
			}
		}
	}
	return []linSys{{}}
}

// linPath is one path through a statement list.
type linPath struct {
	env *linEnv
	sys linSys
}

// linWalk enumerates the paths of a loop-free statement list; visit is called
// for every statement reached that is not an if/assignment handled here.
// Returns the paths that fall through.
func linWalk(paths []linPath, list []ast.Stmt, visit func(p linPath, st ast.Stmt)) []linPath {
	for _, st := range list {
		limit := 256
		if len(paths) > 0 && paths[0].env.maxPaths > 0 {
			limit = paths[0].env.maxPaths
		}
		if len(paths) > limit {
			return paths
		}
		switch x := st.(type) {
		case *ast.AssignStmt:
			for _, p := range paths {
				visit(p, st)
			}
			if len(x.Rhs) == 1 && len(x.Lhs) >= 2 && (x.Tok == token.ASSIGN || x.Tok == token.DEFINE) {
				if call, ok := ast.Unparen(x.Rhs[0]).(*ast.CallExpr); ok {
					var out []linPath
					inlined := true
					for _, p := range paths {
						rs, ok := linInline(p, call, len(x.Lhs), visit)
						if !ok {
							inlined = false
							break
						}
						for _, r := range rs {
							np := linPath{env: p.env.clone(), sys: r.sys}
							np.env.facts = r.facts
							for k, l := range x.Lhs {
								id, ok := ast.Unparen(l).(*ast.Ident)
								if !ok || id.Name == "_" {
									continue
								}
								if o := np.env.info.ObjectOf(id); o != nil {
									if r.ok[k] {
										np.env.vars[o] = r.res[k]
									} else {
										a := np.env.prefix + o.Name() + "'" + itoaSigned(int64(x.Pos()))
										np.env.atoms[a] = true
										np.env.vars[o] = lfAtom(a)
									}
								}
							}
							out = append(out, np)
						}
					}
					if inlined && len(out) > 0 {
						paths = out
						continue
					}
				}
			}
			// x = min(a, b) / max(a, b): one path per argument that can be the result
			if len(x.Lhs) == 1 && len(x.Rhs) == 1 && (x.Tok == token.ASSIGN || x.Tok == token.DEFINE) {
				if call, ok := ast.Unparen(x.Rhs[0]).(*ast.CallExpr); ok && len(call.Args) == 2 {
					if fid, ok := call.Fun.(*ast.Ident); ok && (fid.Name == "min" || fid.Name == "max") {
						if lid, ok := ast.Unparen(x.Lhs[0]).(*ast.Ident); ok && lid.Name != "_" {
							var out []linPath
							okAll := true
							for _, p := range paths {
								p.env.cur = p.sys
								a, ok1 := p.env.form(call.Args[0], 0)
								b, ok2 := p.env.form(call.Args[1], 0)
								o := p.env.info.ObjectOf(lid)
								if !ok1 || !ok2 || o == nil {
									okAll = false
									break
								}
								lo, hi := a, b // result lo when lo <= hi (min) ; for max the roles are exchanged
								for k := 0; k < 2; k++ {
									np := linPath{env: p.env.clone(), sys: append(linSys{}, p.sys...)}
									if fid.Name == "min" {
										np.sys = append(np.sys, linLE(lo, hi))
									} else {
										np.sys = append(np.sys, linLE(hi, lo))
									}
									np.env.vars[o] = lo
									if !np.known().infeasible() {
										out = append(out, np)
									}
									lo, hi = hi, lo
								}
							}
							if okAll {
								paths = out
								continue
							}
						}
					}
				}
			}
			for i := range paths {
				p := &paths[i]
				p.env.cur = p.sys
				if len(x.Lhs) != len(x.Rhs) {
					for _, l := range x.Lhs {
						if id, ok := l.(*ast.Ident); ok && id.Name != "_" {
							if o := p.env.info.ObjectOf(id); o != nil {
								a := p.env.prefix + o.Name() + "'" + itoaSigned(int64(x.Pos()))
								p.env.atoms[a] = true
								p.env.vars[o] = lfAtom(a)
							}
						}
					}
					continue
				}
				type upd struct {
					o  types.Object
					f  linForm
					ok bool
				}
				var ups []upd
				for j, l := range x.Lhs {
					id, ok := ast.Unparen(l).(*ast.Ident)
					if !ok {
						continue
					}
					o := p.env.info.ObjectOf(id)
					if o == nil {
						continue
					}
					// whole-array assignment  a = b : copy the known elements
					if arr, isArr := o.Type().Underlying().(*types.Array); isArr && j < len(x.Rhs) {
						if rid, ok := ast.Unparen(x.Rhs[j]).(*ast.Ident); ok {
							if p.env.elems == nil {
								p.env.elems = map[string]linForm{}
							}
							for k := int64(0); k < arr.Len() && k < 16; k++ {
								src := fmt.Sprintf("%s[%d]", rid.Name, k)
								f, ok := p.env.elems[src]
								if !ok {
									p.env.atoms[src] = true
									f = lfAtom(src)
								}
								p.env.elems[fmt.Sprintf("%s[%d]", id.Name, k)] = f
							}
						}
						continue
					}
					var f linForm
					var fok bool
					switch x.Tok {
					case token.ASSIGN, token.DEFINE:
						f, fok = p.env.form(x.Rhs[j], 0)
					case token.ADD_ASSIGN, token.SUB_ASSIGN:
						cur, ok1 := p.env.form(id, 0)
						r, ok2 := p.env.form(x.Rhs[j], 0)
						if ok1 && ok2 {
							sign := int64(1)
							if x.Tok == token.SUB_ASSIGN {
								sign = -1
							}
							f, fok = cur.add(r, sign), true
						}
					}
					ups = append(ups, upd{o, f, fok})
				}
				for _, u := range ups {
					if u.ok {
						p.env.vars[u.o] = u.f
					} else {
						// unknown value: fresh atom
						a := u.o.Name() + "'" + itoaSigned(int64(u.o.Pos()))
						p.env.vars[u.o] = lfAtom(a)
					}
				}
			}
		case *ast.IncDecStmt:
			for i := range paths {
				p := &paths[i]
				if id, ok := x.X.(*ast.Ident); ok {
					if cur, ok := p.env.form(id, 0); ok {
						d := int64(1)
						if x.Tok == token.DEC {
							d = -1
						}
						p.env.vars[p.env.info.ObjectOf(id)] = cur.add(lfConst(d), 1)
					}
				}
			}
		case *ast.IfStmt:
			// if err := check(a, b); err != nil { … }: the checks of a validator of the package hold afterwards
			if as, ok := x.Init.(*ast.AssignStmt); ok && len(as.Lhs) == 1 && len(as.Rhs) == 1 {
				if call, ok := ast.Unparen(as.Rhs[0]).(*ast.CallExpr); ok {
					if b, ok := ast.Unparen(x.Cond).(*ast.BinaryExpr); ok && (b.Op == token.NEQ || b.Op == token.EQL) {
						l, lok := ast.Unparen(b.X).(*ast.Ident)
						r, rok := ast.Unparen(b.Y).(*ast.Ident)
						v, vok := ast.Unparen(as.Lhs[0]).(*ast.Ident)
						if lok && rok && vok && l.Name == v.Name && r.Name == "nil" && len(paths) > 0 {
							if t := paths[0].env.info.TypeOf(v); t != nil && isErrorType(t) {
								var out []linPath
								all := true
								for _, p := range paths {
									visit(p, as)
									rs, ok := linInline(p, call, 1, visit)
									if !ok {
										all = false
										break
									}
									for _, lr := range rs {
										np := linPath{env: p.env.clone(), sys: append(linSys{}, lr.sys...)}
										np.env.facts = append(np.env.facts, lr.facts...)
										if np.known().infeasible() {
											continue
										}
										isNil := lr.ok[0] && lr.res[0].isConst() && lr.res[0].c == 0
										takeBody := isNil == (b.Op == token.EQL)
										if takeBody {
											out = append(out, linWalk([]linPath{np}, x.Body.List, visit)...)
										} else {
											switch el := x.Else.(type) {
											case *ast.BlockStmt:
												out = append(out, linWalk([]linPath{np}, el.List, visit)...)
											case *ast.IfStmt:
												out = append(out, linWalk([]linPath{np}, []ast.Stmt{el}, visit)...)
											default:
												out = append(out, np)
											}
										}
									}
								}
								if all {
									paths = out
									continue
								}
							}
						}
					}
				}
			}
			if x.Init != nil {
				paths = linWalk(paths, []ast.Stmt{x.Init}, visit)
			}
			var out []linPath
			for _, p := range paths {
				p.env.cur = p.sys
				if p.env.onCond != nil {
					p.env.onCond(p, x.Cond)
				}
				for _, cs := range p.env.cond(x.Cond, false) {
					np := linPath{env: p.env.clone(), sys: append(append(linSys{}, p.sys...), cs...)}
					if np.known().infeasible() {
						continue
					}
					out = append(out, linWalk([]linPath{np}, x.Body.List, visit)...)
				}
				for _, cs := range p.env.cond(x.Cond, true) {
					np := linPath{env: p.env.clone(), sys: append(append(linSys{}, p.sys...), cs...)}
					if np.known().infeasible() {
						continue
					}
					switch el := x.Else.(type) {
					case *ast.BlockStmt:
						out = append(out, linWalk([]linPath{np}, el.List, visit)...)
					case *ast.IfStmt:
						out = append(out, linWalk([]linPath{np}, []ast.Stmt{el}, visit)...)
					default:
						out = append(out, np)
					}
				}
			}
			paths = out
		case *ast.BlockStmt:
			paths = linWalk(paths, x.List, visit)
		case *ast.SwitchStmt:
			if x.Tag != nil {
				for _, p := range paths {
					visit(p, st)
				}
				continue
			}
			if x.Init != nil {
				paths = linWalk(paths, []ast.Stmt{x.Init}, visit)
			}
			var out []linPath
			clauseBody := func(b []ast.Stmt) []ast.Stmt {
				if n := len(b); n > 0 {
					if br, ok := b[n-1].(*ast.BranchStmt); ok && br.Tok == token.BREAK && br.Label == nil {
						return b[:n-1]
					}
				}
				return b
			}
			for _, p := range paths {
				remaining := []linPath{p}
				var deflt *ast.CaseClause
				for _, cl := range x.Body.List {
					cc := cl.(*ast.CaseClause)
					if cc.List == nil {
						deflt = cc
						continue
					}
					for _, e := range cc.List {
						var next []linPath
						for _, r := range remaining {
							r.env.cur = r.sys
							for _, cs := range r.env.cond(e, false) {
								np := linPath{env: r.env.clone(), sys: append(append(linSys{}, r.sys...), cs...)}
								if !np.known().infeasible() {
									out = append(out, linWalk([]linPath{np}, clauseBody(cc.Body), visit)...)
								}
							}
							for _, cs := range r.env.cond(e, true) {
								np := linPath{env: r.env.clone(), sys: append(append(linSys{}, r.sys...), cs...)}
								if !np.known().infeasible() {
									next = append(next, np)
								}
							}
						}
						remaining = next
					}
				}
				if deflt != nil {
					out = append(out, linWalk(remaining, clauseBody(deflt.Body), visit)...)
				} else {
					out = append(out, remaining...)
				}
			}
			paths = out
		case *ast.ReturnStmt:
			for _, p := range paths {
				visit(p, st)
			}
			return nil
		case *ast.BranchStmt:
			for _, p := range paths {
				visit(p, st)
			}
			return nil
		case *ast.ForStmt:
			// sound over-approximation: the variables assigned in the loop are unknown at its head; the body is walked once
			// under the loop condition (its obligations are visited), execution continues under the negated condition
			if x.Init != nil {
				paths = linWalk(paths, []ast.Stmt{x.Init}, visit)
			}
			var out []linPath
			for _, p := range paths {
				visit(p, st)
				havoc := map[types.Object]bool{}
				collect := func(n ast.Node) {
					if n == nil {
						return
					}
					ast.Inspect(n, func(m ast.Node) bool {
						switch y := m.(type) {
						case *ast.AssignStmt:
							for _, l := range y.Lhs {
								if id, ok := ast.Unparen(l).(*ast.Ident); ok && p.env.info.Defs[id] == nil {
									if o := p.env.info.ObjectOf(id); o != nil {
										havoc[o] = true
									}
								}
							}
						case *ast.IncDecStmt:
							if id, ok := ast.Unparen(y.X).(*ast.Ident); ok {
								if o := p.env.info.ObjectOf(id); o != nil {
									havoc[o] = true
								}
							}
						}
						return true
					})
				}
				collect(x.Body)
				if x.Post != nil {
					collect(x.Post)
				}
				head := linPath{env: p.env.clone(), sys: append(linSys{}, p.sys...)}
				// variables stepped together — each changed by exactly one unconditional x++ / x-- at the top level of the
				// body (or in the post statement) — keep their pairwise differences: an inductive invariant of the loop
				steps := map[types.Object]int64{}
				nupd := map[types.Object]int{}
				countUpd := func(n ast.Node) {
					if n == nil {
						return
					}
					ast.Inspect(n, func(m ast.Node) bool {
						switch y := m.(type) {
						case *ast.AssignStmt:
							for _, l := range y.Lhs {
								if id, ok := ast.Unparen(l).(*ast.Ident); ok {
									if o := p.env.info.ObjectOf(id); o != nil {
										nupd[o]++
									}
								}
							}
						case *ast.IncDecStmt:
							if id, ok := ast.Unparen(y.X).(*ast.Ident); ok {
								if o := p.env.info.ObjectOf(id); o != nil {
									nupd[o]++
								}
							}
						}
						return true
					})
				}
				countUpd(x.Body)
				countUpd(x.Post)
				top := append([]ast.Stmt{}, x.Body.List...)
				if x.Post != nil {
					top = append(top, x.Post)
				}
				for _, st := range top {
					if ids, ok := st.(*ast.IncDecStmt); ok {
						if id, ok := ast.Unparen(ids.X).(*ast.Ident); ok {
							if o := p.env.info.ObjectOf(id); o != nil && nupd[o] == 1 {
								if ids.Tok == token.INC {
									steps[o] = 1
								} else {
									steps[o] = -1
								}
							}
						}
					}
				}
				// a 'continue' or a labelled jump could skip a step: give up the invariant then
				ast.Inspect(x.Body, func(m ast.Node) bool {
					if br, ok := m.(*ast.BranchStmt); ok && (br.Tok == token.CONTINUE || br.Tok == token.GOTO) {
						steps = map[types.Object]int64{}
					}
					return true
				})
				old := map[types.Object]linForm{}
				for o := range steps {
					if f, ok := p.env.vars[o]; ok {
						old[o] = f
					}
				}
				for o := range havoc {
					a := o.Name() + "@loop" + itoaSigned(int64(x.Pos()))
					head.env.atoms[a] = true
					head.env.vars[o] = lfAtom(a)
				}
				var stepped []types.Object
				for o := range old {
					stepped = append(stepped, o)
				}
				sort.Slice(stepped, func(i, j int) bool { return stepped[i].Pos() < stepped[j].Pos() })
				for i := 0; i+1 < len(stepped); i++ {
					o1, o2 := stepped[i], stepped[i+1]
					if steps[o1] != steps[o2] {
						continue
					}
					// new1 - new2 == old1 - old2
					d := head.env.vars[o1].add(head.env.vars[o2], -1).add(old[o1], -1).add(old[o2], 1)
					head.sys = append(head.sys, linLE(d, lfConst(0)), linLE(lfConst(0), d))
				}
				if x.Cond != nil {
					head.env.cur = head.sys
					for _, cs := range head.env.cond(x.Cond, false) {
						np := linPath{env: head.env.clone(), sys: append(append(linSys{}, head.sys...), cs...)}
						if !np.known().infeasible() {
							linWalk([]linPath{np}, x.Body.List, visit)
						}
					}
					for _, cs := range head.env.cond(x.Cond, true) {
						np := linPath{env: head.env.clone(), sys: append(append(linSys{}, head.sys...), cs...)}
						if !np.known().infeasible() {
							out = append(out, np)
						}
					}
				} else {
					linWalk([]linPath{{env: head.env.clone(), sys: head.sys}}, x.Body.List, visit)
				}
			}
			paths = out
		default:
			for _, p := range paths {
				visit(p, st)
			}
			// a statement that ends the program ends the paths
			if es, ok := st.(*ast.ExprStmt); ok && len(paths) > 0 {
				if call, ok := es.X.(*ast.CallExpr); ok && linEndsProgram(paths[0].env.info, call) {
					return nil
				}
			}
		}
	}
	return paths
}

// linEndsProgram: panic(…), os.Exit(…), (log|logrus|testing).Fatal*/Panic*.
func linEndsProgram(info *types.Info, call *ast.CallExpr) bool {
	if id, ok := call.Fun.(*ast.Ident); ok && id.Name == "panic" {
		if _, isBuiltin := info.Uses[id].(*types.Builtin); isBuiltin {
			return true
		}
	}
	f := callee(info, call)
	if f == nil || f.Pkg() == nil {
		return false
	}
	if f.Pkg().Path() == "os" && f.Name() == "Exit" {
		return true
	}
	if strings.HasSuffix(f.Pkg().Path(), "logrus") || f.Pkg().Path() == "log" {
		return strings.HasPrefix(f.Name(), "Fatal") || strings.HasPrefix(f.Name(), "Panic")
	}
	return false
}

// known: the constraints of the path together with the facts attached to its atoms (remainders) and the
// non-negativity of lengths.
func (p linPath) known() linSys {
	out := append(append(linSys{}, p.sys...), p.env.facts...)
	for a := range p.env.lens {
		out = append(out, lfAtom(a).scale(-1))
	}
	return out
}

// fieldAtom names the integer or boolean field reached by a selector chain: ".a.b" for x.a.b (booleans range over 0/1;
// their bounds are added to the facts).
func (e *linEnv) fieldAtom(sel *ast.SelectorExpr) (string, bool) {
	v, ok := e.info.ObjectOf(sel.Sel).(*types.Var)
	if !ok || !v.IsField() {
		return "", false
	}
	bt, ok := v.Type().Underlying().(*types.Basic)
	if !ok || (bt.Info()&types.IsInteger == 0 && bt.Kind() != types.Bool) {
		return "", false
	}
	path := "." + sel.Sel.Name
	x := ast.Unparen(sel.X)
	for {
		if s2, ok := x.(*ast.SelectorExpr); ok {
			path = "." + s2.Sel.Name + path
			x = ast.Unparen(s2.X)
			continue
		}
		break
	}
	root, ok := x.(*ast.Ident)
	if !ok {
		return "", false
	}
	if a, ok := e.alias[root.Name]; ok {
		path = a + path
	} else {
		path = root.Name + path
	}
	if !e.atoms[path] && bt.Kind() == types.Bool {
		e.facts = append(e.facts, linLE(lfConst(0), lfAtom(path)), linLE(lfAtom(path), lfConst(1)))
	}
	e.atoms[path] = true
	return path, true
}

// getter: for a call without argument of a function whose body is 'return <expr>', that expression and its type information.
func (e *linEnv) getter(call *ast.CallExpr) (ast.Expr, *types.Info, map[string]string) {
	if e.decl == nil || len(call.Args) != 0 {
		return nil, nil, nil
	}
	var fn *types.Func
	switch f := ast.Unparen(call.Fun).(type) {
	case *ast.SelectorExpr:
		fn, _ = e.info.ObjectOf(f.Sel).(*types.Func)
	case *ast.Ident:
		fn, _ = e.info.ObjectOf(f).(*types.Func)
	}
	if fn == nil {
		return nil, nil, nil
	}
	d, di := e.decl(fn)
	if d == nil || d.Body == nil || len(d.Body.List) == 0 {
		return nil, nil, nil
	}
	// before the return: only validations that end the program (if bad { log.Fatalf(…) }); what they establish is not used
	for _, st := range d.Body.List[:len(d.Body.List)-1] {
		is, ok := st.(*ast.IfStmt)
		if !ok || is.Else != nil || is.Init != nil || len(is.Body.List) == 0 {
			return nil, nil, nil
		}
		es, ok := is.Body.List[len(is.Body.List)-1].(*ast.ExprStmt)
		if !ok {
			return nil, nil, nil
		}
		fc, ok := es.X.(*ast.CallExpr)
		if !ok || !linEndsProgram(di, fc) {
			return nil, nil, nil
		}
	}
	r, ok := d.Body.List[len(d.Body.List)-1].(*ast.ReturnStmt)
	if !ok || len(r.Results) != 1 {
		return nil, nil, nil
	}
	al := map[string]string{}
	if sel, ok := ast.Unparen(call.Fun).(*ast.SelectorExpr); ok && d.Recv != nil && len(d.Recv.List) == 1 && len(d.Recv.List[0].Names) == 1 {
		recv := types.ExprString(sel.X)
		if id, ok := ast.Unparen(sel.X).(*ast.Ident); ok {
			if a, ok := e.alias[id.Name]; ok {
				recv = a
			}
		}
		al[d.Recv.List[0].Names[0].Name] = recv
	}
	return r.Results[0], di, al
}

type linReturn struct {
	sys   linSys
	facts linSys
	res   []linForm
	ok    []bool
}

// linInline walks the body of a function of the module called with plain arguments and returns, for every path
// reaching a return statement, the constraints of that path and the affine values of the results. Integer and boolean
// parameters are bound to the values of the arguments, array parameters to the elements of the argument, the other
// ones (records reached through selectors) are aliased to the argument's text. Unknown locals of the callee are atoms
// of their own (prefix). ok=false when the callee cannot be read that way.
func linInline(p linPath, call *ast.CallExpr, nres int, visit func(p linPath, st ast.Stmt)) ([]linReturn, bool) {
	e := p.env
	if e.decl == nil || len(e.prefix) > 40 {
		return nil, false
	}
	var fn *types.Func
	switch f := ast.Unparen(call.Fun).(type) {
	case *ast.SelectorExpr:
		fn, _ = e.info.ObjectOf(f.Sel).(*types.Func)
	case *ast.Ident:
		fn, _ = e.info.ObjectOf(f).(*types.Func)
	}
	if fn == nil {
		return nil, false
	}
	d, di := e.decl(fn)
	if d == nil || d.Body == nil || d.Type.Results == nil {
		return nil, false
	}
	sig, ok := fn.Type().(*types.Signature)
	if !ok || sig.Results().Len() != nres || sig.Variadic() {
		return nil, false
	}
	// only callees computing integers / booleans are worth their paths: inlining a function that builds a record
	// (Subsequence, with its dozen branches, called under 84 paths) multiplies the enumeration for nothing
	// (a validator — one result, of type error — is followed too: nil is 0, anything else 1)
	isValidator := nres == 1 && sig.Results().Len() == 1 && isErrorType(sig.Results().At(0).Type())
	for i := 0; i < sig.Results().Len() && !isValidator; i++ {
		b, isBasic := sig.Results().At(i).Type().Underlying().(*types.Basic)
		if !isBasic || (b.Info()&types.IsInteger == 0 && b.Kind() != types.Bool) {
			return nil, false
		}
	}
	// only integer/boolean results are of interest; give up on callees that loop
	loops := false
	ast.Inspect(d.Body, func(n ast.Node) bool {
		switch n.(type) {
		case *ast.ForStmt, *ast.RangeStmt, *ast.GoStmt, *ast.SelectStmt:
			loops = true
		}
		return true
	})
	if loops {
		return nil, false
	}
	sub := &linEnv{info: di, vars: map[types.Object]linForm{}, defs: map[types.Object][]ast.Expr{}, atoms: e.atoms, lens: e.lens, elems: map[string]linForm{},
		decl: e.decl, alias: map[string]string{}, prefix: e.prefix + fn.Name() + "@" + itoaSigned(int64(call.Pos())) + ":"}
	sub.facts = append(linSys{}, e.facts...)
	for k, v := range e.alias {
		sub.alias[k] = v
	}
	e.cur = p.sys
	params := flattenParams(d.Type.Params)
	if len(params) != len(call.Args) {
		return nil, false
	}
	for i, prm := range params {
		if prm == nil {
			continue
		}
		po := di.ObjectOf(prm)
		arg := ast.Unparen(call.Args[i])
		switch t := po.Type().Underlying().(type) {
		case *types.Basic:
			if t.Info()&types.IsInteger != 0 || t.Kind() == types.Bool {
				if f, ok := e.form(arg, 0); ok {
					sub.vars[po] = f
				}
			}
		case *types.Array:
			if id, ok := arg.(*ast.Ident); ok {
				for k := int64(0); k < t.Len() && k < 16; k++ {
					src := fmt.Sprintf("%s[%d]", id.Name, k)
					f, ok := e.elems[src]
					if !ok {
						e.atoms[src] = true
						f = lfAtom(src)
					}
					sub.elems[fmt.Sprintf("%s[%d]", prm.Name, k)] = f
				}
			}
		default:
			txt := types.ExprString(arg)
			if id, ok := arg.(*ast.Ident); ok {
				if a, ok := e.alias[id.Name]; ok {
					txt = a
				}
			}
			sub.alias[prm.Name] = txt
		}
	}
	if d.Recv != nil && len(d.Recv.List) == 1 && len(d.Recv.List[0].Names) == 1 {
		if sel, ok := ast.Unparen(call.Fun).(*ast.SelectorExpr); ok {
			sub.alias[d.Recv.List[0].Names[0].Name] = types.ExprString(sel.X)
		}
	}
	var out []linReturn
	okAll := true
	linWalk([]linPath{{env: sub, sys: append(linSys{}, p.sys...)}}, d.Body.List, func(q linPath, st ast.Stmt) {
		r, isRet := st.(*ast.ReturnStmt)
		if !isRet {
			return
		}
		if len(r.Results) != nres {
			okAll = false
			return
		}
		q.env.cur = q.sys
		lr := linReturn{sys: append(linSys{}, q.sys...), res: make([]linForm, nres), ok: make([]bool, nres)}
		for k, re := range r.Results {
			if isValidator {
				if id, isId := ast.Unparen(re).(*ast.Ident); isId && id.Name == "nil" {
					lr.res[k], lr.ok[k] = lfConst(0), true
				} else if _, isCall := ast.Unparen(re).(*ast.CallExpr); isCall {
					lr.res[k], lr.ok[k] = lfConst(1), true // fmt.Errorf(…), errors.New(…): not nil
				} else {
					okAll = false
				}
				continue
			}
			lr.res[k], lr.ok[k] = q.env.form(re, 0)
		}
		lr.facts = append(linSys{}, q.env.facts...)
		out = append(out, lr)
	})
	if !okAll || len(out) == 0 {
		return nil, false
	}
	return out, true
}
