package main

// PV-init — an "initialised" flag is published after the data it guards (C05).
// ND-argmin — a selection inside a range over a map must not depend on map order (C05).

import (
	"fmt"
	"go/ast"
	"go/token"
	"go/types"

	"golang.org/x/tools/go/packages"
)

func init() {
	register(&Rule{
		ID: "PV-init", Props: []string{"C05"}, Min: 1,
		Doc: `lazily initialised shared tables are published last: when a function holding a lock for its whole body does 'if !flag { …; flag = true }' on a package-level flag
that other code reads without the lock (double-checked initialisation), the store to the flag must be the last statement of that block — a worker that sees the flag set
before the tables are filled computes with empty tables (wrong scores for the first records, only with several workers).`,
		Run: runPVInit,
	})
	register(&Rule{
		ID: "ND-argmin", Props: []string{"C05", "C19"}, Min: 3,
		Doc: `selection over a map does not depend on iteration order: inside 'for … range <map>' a running best (if d < best { best = d; pick = k }) must use a strict
comparison and the loop must neutralise ties (a branch comparing d == best that overwrites the pick); with <= / >= the last tied key in Go's randomised map order wins, so the
result differs from run to run.`,
		Run: runNDArgmin,
	})
}

func runPVInit(c *Ctx, s *Sink) {
	c.EachFunc([]string{"pkg/obialign", "pkg/obiseq", "pkg/obikmer", "pkg/obiapat", "pkg/obiiter"}, func(p *packages.Package, fd *ast.FuncDecl) {
		if !deferLocked(fd) {
			return
		}
		info := p.TypesInfo
		ast.Inspect(fd.Body, func(n ast.Node) bool {
			ifs, ok := n.(*ast.IfStmt)
			if !ok {
				return true
			}
			u, ok := ast.Unparen(ifs.Cond).(*ast.UnaryExpr)
			if !ok || u.Op != token.NOT {
				return true
			}
			flag, ok := rootObj(info, u.X).(*types.Var)
			if !ok || flag.Parent() != flag.Pkg().Scope() {
				return true
			}
			key := funcName(p, fd) + ":" + flag.Name()
			idx := -1
			for i, st := range ifs.Body.List {
				if as, ok := st.(*ast.AssignStmt); ok && len(as.Lhs) == 1 && rootObj(info, as.Lhs[0]) == flag {
					idx = i
				}
			}
			switch {
			case idx < 0:
				s.Undecided(nil, key, ifs.Pos(), "the flag tested is never set in the guarded block")
			case idx != len(ifs.Body.List)-1:
				s.Fail(nil, key, ifs.Body.List[idx].Pos(), fmt.Sprintf("%s is set before the initialisation is finished: code that tests the flag without the lock skips the initialisation and uses tables that are still being filled", flag.Name()))
			default:
				s.Pass(nil, key, ifs.Pos(), "the flag is stored after the data it guards")
			}
			return true
		})
	})
}

func runNDArgmin(c *Ctx, s *Sink) {
	c.EachFunc(append([]string{"pkg/obitax", "pkg/obistats", "pkg/obikmer", "pkg/obitools/obiconsensus"}, ndScope...), func(p *packages.Package, fd *ast.FuncDecl) {
		info := p.TypesInfo
		n := 0
		ast.Inspect(fd.Body, func(nd ast.Node) bool {
			rs, ok := nd.(*ast.RangeStmt)
			if !ok || !isMapType(info, rs.X) {
				return true
			}
			// running-best updates: if d OP best { best = d ; … }
			ast.Inspect(rs.Body, func(m ast.Node) bool {
				ifs, ok := m.(*ast.IfStmt)
				if !ok {
					return true
				}
				b, ok := ast.Unparen(ifs.Cond).(*ast.BinaryExpr)
				if !ok {
					return true
				}
				// 'd > best || (d == best && tie-break)': the comparison is the first alternative
				for b.Op == token.LOR {
					l, ok := ast.Unparen(b.X).(*ast.BinaryExpr)
					if !ok {
						return true
					}
					b = l
				}
				switch b.Op {
				case token.LSS, token.GTR, token.LEQ, token.GEQ:
				default:
					return true
				}
				best := rootObj(info, b.Y)
				cand := rootObj(info, b.X)
				if best == nil || cand == nil || within(best, rs) {
					return true
				}
				// the block assigns best = cand and something else (the pick)
				setsBest, setsOther := false, false
				for _, st := range ifs.Body.List {
					if as, ok := st.(*ast.AssignStmt); ok && len(as.Lhs) == 1 && len(as.Rhs) == 1 {
						if rootObj(info, as.Lhs[0]) == best && rootObj(info, as.Rhs[0]) == cand {
							setsBest = true
						} else if o := rootObj(info, as.Lhs[0]); o != nil && !within(o, rs) {
							setsOther = true
						}
					}
				}
				if !setsBest || !setsOther {
					return true
				}
				n++
				key := fmt.Sprintf("%s:argmin#%d", funcName(p, fd), n)
				if b.Op == token.LEQ || b.Op == token.GEQ {
					s.Fail(nil, key, ifs.Pos(), "the running best over a map is updated with a non-strict comparison: among tied keys the last one in Go's randomised iteration order wins, so the selected key changes from run to run")
					return true
				}
				// strict: a tie branch must exist
				tie := false
				ast.Inspect(rs.Body, func(k ast.Node) bool {
					if e, ok := k.(*ast.BinaryExpr); ok && e.Op == token.EQL {
						if (rootObj(info, e.X) == cand && rootObj(info, e.Y) == best) || (rootObj(info, e.X) == best && rootObj(info, e.Y) == cand) {
							tie = true
						}
					}
					return true
				})
				if tie {
					s.Pass(nil, key, ifs.Pos(), "strict comparison with an explicit tie branch")
				} else {
					s.Fail(nil, key, ifs.Pos(), "the running best over a map keeps the first minimal key in iteration order and never looks at ties: the selected key changes from run to run when two keys tie")
				}
				return true
			})
			return true
		})
	})
}
