package main

// FID — an identifier written on a title line can be read back (C06).

import (
	"go/ast"
	"strings"

	"golang.org/x/tools/go/packages"
)

func init() {
	register(&Rule{
		ID: "FID", Props: []string{"C06"}, Min: 2,
		Doc: `the default (on-disk) mode of obiuniq writes its intermediate chunks as FASTA/FASTQ and reads them back: the identifier is written as it is, followed by a blank and the annotations,
and the readers cut the identifier at the first blank. Every function of pkg/obiformats that writes BioSequence.Id() on a title line (the result of Id() is an argument of a formatted print whose
format holds ">%s" or "@%s", or of a WriteString that follows the WriteByte of '>' or '@') checks or escapes the blanks of the identifier (a strings.Contains…/Index…/Replace…/Fields call on it in
the function). Identifiers with a blank are legal in CSV and JSON input; unchecked, the record read back is named by the first word, its annotations become a definition, and count, category and
merge attributes are lost (count 7 in memory, count 2 with merged_sample {NA:2} on disk).`,
		Run: func(c *Ctx, s *Sink) {
			c.EachFunc([]string{"pkg/obiformats"}, func(p *packages.Package, fd *ast.FuncDecl) {
				info := p.TypesInfo
				writesID := false
				isIDCall := func(e ast.Expr) bool {
					call, ok := ast.Unparen(e).(*ast.CallExpr)
					return ok && strings.HasSuffix(fullName(callee(info, call)), "BioSequence).Id")
				}
				var marker bool
				ast.Inspect(fd.Body, func(n ast.Node) bool {
					call, ok := n.(*ast.CallExpr)
					if !ok {
						return true
					}
					f := callee(info, call)
					if f == nil {
						return true
					}
					switch {
					case f.Pkg() != nil && f.Pkg().Path() == "fmt" && (strings.HasPrefix(f.Name(), "Sprintf") || strings.HasPrefix(f.Name(), "Fprintf")):
						hasFmt := false
						for _, a := range call.Args {
							if tv, ok := info.Types[a]; ok && tv.Value != nil {
								v := tv.Value.ExactString()
								if strings.Contains(v, ">%s") || strings.Contains(v, "@%s") {
									hasFmt = true
								}
							}
						}
						if hasFmt {
							for _, a := range call.Args {
								if isIDCall(a) {
									writesID = true
								}
							}
						}
					case f.Name() == "WriteByte" && len(call.Args) == 1:
						if tv, ok := info.Types[call.Args[0]]; ok && tv.Value != nil && (tv.Value.ExactString() == "62" || tv.Value.ExactString() == "64") {
							marker = true
						}
					case f.Name() == "WriteString" && len(call.Args) == 1 && marker:
						if isIDCall(call.Args[0]) {
							writesID = true
						}
					}
					return true
				})
				if !writesID {
					return
				}
				key := funcName(p, fd) + ":identifier-blank"
				checked := false
				ast.Inspect(fd.Body, func(n ast.Node) bool {
					call, ok := n.(*ast.CallExpr)
					if !ok {
						return true
					}
					f := callee(info, call)
					if f == nil || f.Pkg() == nil || (f.Pkg().Path() != "strings" && f.Pkg().Path() != "bytes") {
						return true
					}
					switch {
					case strings.HasPrefix(f.Name(), "Contains"), strings.HasPrefix(f.Name(), "Index"), strings.HasPrefix(f.Name(), "Replace"), f.Name() == "Fields", f.Name() == "Map":
						for _, a := range call.Args {
							if isIDCall(a) {
								checked = true
							}
						}
					}
					return true
				})
				if checked {
					s.Pass(nil, key, fd.Pos(), "the blanks of the identifier are checked or escaped before it is written")
				} else {
					s.Fail(nil, key, fd.Pos(), "the identifier is written on the title line as it is: an identifier holding a blank (legal in CSV/JSON input) is cut at the blank when the file is read back, the annotations become a definition — obiuniq's on-disk chunks lose count, category and merge attributes (CSV ids \"read 1\", \"read 2\": count 7 in memory, count 2 with merged_sample {NA:2} on disk)")
				}
			})
		},
	})
}
