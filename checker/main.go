package main

import (
	"crypto/sha1"
	"encoding/json"
	"flag"
	"fmt"
	"os"
	"path/filepath"
	"sort"
	"strconv"
	"strings"
	"time"
)

var verifDir = "/verif"

type knownFinding struct {
	Status   string `json:"status"` // "known" or "fixed"
	Property string `json:"property"`
	Rule     string `json:"rule"`
	Key      string `json:"key"`
	What     string `json:"what"`
	Commit   string `json:"commit,omitempty"`
}

func loadKnown() []knownFinding {
	var out []knownFinding
	data, err := os.ReadFile(filepath.Join(verifDir, "known_findings.jsonl"))
	if err != nil {
		return nil
	}
	for _, l := range strings.Split(string(data), "\n") {
		l = strings.TrimSpace(l)
		if l == "" || strings.HasPrefix(l, "#") {
			continue
		}
		var k knownFinding
		if err := json.Unmarshal([]byte(l), &k); err != nil {
			fmt.Fprintf(os.Stderr, "known_findings.jsonl: bad line: %v\n", err)
			os.Exit(2)
		}
		out = append(out, k)
	}
	return out
}

type propInfo struct {
	ID    string `json:"id"`
	Title string `json:"title"`
}

func loadProps() []propInfo {
	var out []propInfo
	data, err := os.ReadFile(filepath.Join(verifDir, "properties.jsonl"))
	if err != nil {
		fmt.Fprintln(os.Stderr, err)
		os.Exit(2)
	}
	for _, l := range strings.Split(string(data), "\n") {
		if strings.TrimSpace(l) == "" {
			continue
		}
		var p propInfo
		if json.Unmarshal([]byte(l), &p) == nil {
			out = append(out, p)
		}
	}
	return out
}

// claimedProps: the properties with a check in MANIFEST.json (all non-N/A ones if the manifest cannot be read).
func claimedProps() []string {
	var m struct {
		Checks []struct {
			PropertyID string `json:"property_id"`
		} `json:"checks"`
	}
	var ids []string
	if data, err := os.ReadFile(filepath.Join(verifDir, "MANIFEST.json")); err == nil && json.Unmarshal(data, &m) == nil {
		for _, c := range m.Checks {
			ids = append(ids, c.PropertyID)
		}
	}
	if len(ids) == 0 {
		for _, p := range loadProps() {
			if !notApplicable[p.ID] {
				ids = append(ids, p.ID)
			}
		}
	}
	return ids
}

// notApplicable lists the properties for which no rule is claimed.
var notApplicable = map[string]bool{"C08": true, "C12": true, "C14": true}

func main() {
	if len(os.Args) < 2 {
		usage()
	}
	cmd := os.Args[1]
	fs := flag.NewFlagSet(cmd, flag.ExitOnError)
	tier := fs.String("tier", envOr("VERIF_TIER", "quick"), "quick|thorough")
	repo := fs.String("repo", envOr("VERIF_REPO", "/repo"), "repository to analyse")
	vdir := fs.String("verif", envOr("VERIF_DIR", defaultVerifDir()), "verif directory")
	noEvidence := fs.Bool("no-evidence", false, "do not write evidence files")
	verbose := fs.Bool("v", false, "print every obligation")
	var args []string
	rest := os.Args[2:]
	// allow positional before flags
	for len(rest) > 0 && !strings.HasPrefix(rest[0], "-") {
		args = append(args, rest[0])
		rest = rest[1:]
	}
	fs.Parse(rest)
	args = append(args, fs.Args()...)
	verifDir = *vdir
	if *tier != "quick" && *tier != "thorough" {
		*tier = "quick"
	}

	switch cmd {
	case "check":
		if len(args) != 1 {
			usage()
		}
		os.Exit(runCheck(*repo, *tier, []string{args[0]}, !*noEvidence, *verbose))
	case "all":
		ids := claimedProps()
		os.Exit(runCheck(*repo, *tier, ids, !*noEvidence, *verbose))
	case "replay":
		if len(args) != 1 {
			usage()
		}
		os.Exit(runReplay(*repo, args[0]))
	case "seedchild":
		if len(args) != 1 {
			usage()
		}
		os.Exit(seedChild(*repo, args[0]))
	case "seeds":
		os.Exit(runSeeds(*repo, args, *verbose))
	case "list":
		for _, r := range rules {
			fmt.Printf("%-6s %-24s min=%d  %s\n", r.ID, strings.Join(r.Props, ","), r.Min, firstLine(r.Doc))
		}
	default:
		usage()
	}
}

func defaultVerifDir() string {
	exe, err := os.Executable()
	if err == nil {
		d := filepath.Dir(filepath.Dir(exe))
		if _, err := os.Stat(filepath.Join(d, "properties.jsonl")); err == nil {
			return d
		}
	}
	return "/verif"
}

func firstLine(s string) string {
	s = strings.TrimSpace(s)
	if i := strings.Index(s, "\n"); i >= 0 {
		return s[:i]
	}
	return s
}

func envOr(k, d string) string {
	if v := os.Getenv(k); v != "" {
		return v
	}
	return d
}

func usage() {
	fmt.Fprintln(os.Stderr, "usage: obiverif check Cnn [--tier quick|thorough] [--repo DIR] | all | replay FILE | seeds [Cnn...] | list")
	os.Exit(2)
}

// ruleTimeout bounds the time a single rule may take (the slowest takes a few seconds).
const ruleTimeout = 180 * time.Second

type runResult struct {
	obs      []*Ob
	ruleErrs []string
	perRule  map[string]int
}

// runRules executes every rule that serves one of the wanted properties.
func runRules(c *Ctx, want map[string]bool) *runResult {
	res := &runResult{perRule: map[string]int{}}
	for _, r := range rules {
		serves := false
		for _, p := range r.Props {
			if want[p] {
				serves = true
			}
		}
		if !serves {
			continue
		}
		if only := os.Getenv("OBIVERIF_RULE"); only != "" && only != r.ID {
			continue // debugging aid: one rule at a time
		}
		s := &Sink{c: c, rule: r, props: r.Props}
		// a rule that does not come back is reported as undecided (a failure) instead of hanging the check: the
		// path enumerations are bounded, but a bound that is too generous on an unforeseen shape must not block
		done := make(chan struct{})
		go func() {
			defer close(done)
			defer func() {
				if e := recover(); e != nil {
					s.add(Undecided, r.Props, r.ID+":panic", 0, fmt.Sprintf("analyser panicked: %v", e))
				}
			}()
			r.Run(c, s)
		}()
		select {
		case <-done:
		case <-time.After(ruleTimeout):
			// the sink of the runaway rule is abandoned (it may still be written to): a fresh one carries the verdict
			s = &Sink{c: c, rule: r, props: r.Props}
			s.add(Undecided, r.Props, r.ID+":timeout", 0, fmt.Sprintf("the analysis did not terminate within %s", ruleTimeout))
			res.perRule[r.ID] = 0
			res.obs = append(res.obs, s.obs...)
			continue
		}
		res.perRule[r.ID] = len(s.obs)
		if len(s.obs) < r.Min {
			s.add(Undecided, r.Props, r.ID+":instances", 0,
				fmt.Sprintf("rule matched %d instances, expected at least %d (an anchor or idiom disappeared)", len(s.obs), r.Min))
		}
		res.obs = append(res.obs, s.obs...)
	}
	return res
}

func runCheck(repo, tier string, ids []string, writeEvidence, verbose bool) int {
	t0 := time.Now()
	seed, _ := strconv.Atoi(os.Getenv("VERIF_SEED"))
	c, err := Load(repo, nil)
	if err != nil {
		// loading failure = nothing decided: fail every property asked for
		for _, id := range ids {
			fmt.Printf("UNDECIDED property=%s cannot load program: %v\n", id, err)
			rp := writeReplay(id, &Ob{Rule: "LOAD", Key: "load", Msg: err.Error(), Verdict: "UNDECIDED"}, repo)
			fmt.Printf("VIOLATION property=%s replay=%s\n", id, rp)
			if writeEvidence {
				writeEvidenceFile(id, tier, seed, nil, nil, 0, 1, time.Since(t0), c, nil, err.Error())
			}
		}
		return 1
	}
	c.Tier = tier
	want := map[string]bool{}
	for _, id := range ids {
		want[id] = true
	}
	res := runRules(c, want)
	known := loadKnown()
	exit := 0
	var seedRes map[string][]seedResult
	if tier == "thorough" {
		seedRes = replaySeedsFor(repo, ids, verbose)
	}
	for _, id := range ids {
		var mine []*Ob
		for _, o := range res.obs {
			if has(o.Props, id) {
				mine = append(mine, o)
			}
		}
		sort.SliceStable(mine, func(i, j int) bool {
			if mine[i].Rule != mine[j].Rule {
				return mine[i].Rule < mine[j].Rule
			}
			return mine[i].Key < mine[j].Key
		})
		nviol, nknown := 0, 0
		var knownLines []string
		for _, o := range mine {
			if verbose {
				fmt.Printf("  [%s] %s %s %s: %s\n", o.Verdict, o.Rule, o.Pos, o.Key, o.Msg)
			}
			if o.v == Pass {
				continue
			}
			if o.v == Violation {
				if k := matchKnown(known, id, o); k != nil {
					nknown++
					o.Verdict = "KNOWN-FINDING"
					knownLines = append(knownLines, fmt.Sprintf("KNOWN-FINDING: property=%s rule=%s %s (%s): %s", id, o.Rule, o.Key, o.Pos, k.What))
					continue
				}
			}
			nviol++
			rp := writeReplay(id, o, repo)
			fmt.Printf("%s: rule %s: %s: %s\n", o.Pos, o.Rule, o.Key, o.Msg)
			for _, p := range o.Path {
				fmt.Printf("      %s\n", p)
			}
			if o.v == Undecided {
				fmt.Printf("UNDECIDED property=%s rule=%s key=%q (counts as failure)\n", id, o.Rule, o.Key)
			}
			fmt.Printf("VIOLATION property=%s replay=%s\n", id, rp)
		}
		for _, l := range knownLines {
			fmt.Println(l)
		}
		// seeds (thorough)
		for _, sr := range seedRes[id] {
			if !sr.ok {
				// self-test of the rules, not a verdict on /repo: reported, never a VIOLATION
				fmt.Printf("SEED-MISSED property=%s seed %s: %s\n", id, sr.name, sr.msg)
			}
		}
		if len(mine) == 0 {
			nviol++
			fmt.Printf("UNDECIDED property=%s no rule produced an obligation\n", id)
			rp := writeReplay(id, &Ob{Rule: "NONE", Key: "no-obligation", Verdict: "UNDECIDED"}, repo)
			fmt.Printf("VIOLATION property=%s replay=%s\n", id, rp)
		}
		if writeEvidence {
			writeEvidenceFile(id, tier, seed, mine, seedRes[id], nknown, nviol, time.Since(t0), c, res.perRule, "")
		}
		npass := 0
		for _, o := range mine {
			if o.v == Pass {
				npass++
			}
		}
		fmt.Printf("property=%s tier=%s obligations=%d discharged=%d known=%d violations=%d seeds=%d wall=%.1fs\n",
			id, tier, len(mine), npass, nknown, nviol, len(seedRes[id]), time.Since(t0).Seconds())
		if nviol > 0 {
			exit = 1
		}
	}
	return exit
}

func matchKnown(known []knownFinding, prop string, o *Ob) *knownFinding {
	for i := range known {
		k := &known[i]
		if k.Status == "known" && k.Property == prop && k.Rule == o.Rule && k.Key == o.Key {
			return k
		}
	}
	return nil
}

type replayFile struct {
	Property string `json:"property"`
	Rule     string `json:"rule"`
	Key      string `json:"key"`
	Pos      string `json:"pos"`
	Verdict  string `json:"verdict"`
	Msg      string `json:"msg"`
	Path     []string `json:"path,omitempty"`
	Repo     string `json:"repo"`
	Rerun    string `json:"rerun"`
}

func writeReplay(prop string, o *Ob, repo string) string {
	dir := filepath.Join(verifDir, "evidence", "replay")
	os.MkdirAll(dir, 0o755)
	h := sha1.Sum([]byte(prop + "|" + o.Rule + "|" + o.Key))
	name := filepath.Join(dir, fmt.Sprintf("%s-%s-%x.json", prop, o.Rule, h[:5]))
	rf := replayFile{Property: prop, Rule: o.Rule, Key: o.Key, Pos: o.Pos, Verdict: o.Verdict, Msg: o.Msg, Path: o.Path, Repo: repo,
		Rerun: fmt.Sprintf("./bin/obiverif replay %s", name)}
	data, _ := json.MarshalIndent(rf, "", " ")
	os.WriteFile(name, data, 0o644)
	return name
}

// runReplay re-runs the rule of a replay file and reports the state of that
// one construct on the current tree.
func runReplay(repo, path string) int {
	data, err := os.ReadFile(path)
	if err != nil {
		fmt.Fprintln(os.Stderr, err)
		return 2
	}
	var rf replayFile
	if err := json.Unmarshal(data, &rf); err != nil {
		fmt.Fprintln(os.Stderr, err)
		return 2
	}
	c, err := Load(repo, nil)
	if err != nil {
		fmt.Printf("cannot load program: %v\nVIOLATION property=%s replay=%s\n", err, rf.Property, path)
		return 1
	}
	res := runRules(c, map[string]bool{rf.Property: true})
	found := false
	exit := 0
	for _, o := range res.obs {
		if o.Rule == rf.Rule && o.Key == rf.Key && has(o.Props, rf.Property) {
			found = true
			fmt.Printf("[%s] %s rule %s: %s: %s\n", o.Verdict, o.Pos, o.Rule, o.Key, o.Msg)
			for _, p := range o.Path {
				fmt.Printf("      %s\n", p)
			}
			if o.v != Pass {
				fmt.Printf("VIOLATION property=%s replay=%s\n", rf.Property, path)
				exit = 1
			}
		}
	}
	if !found {
		fmt.Printf("construct %q of rule %s is no longer reported on this tree\n", rf.Key, rf.Rule)
	}
	return exit
}

type evidence struct {
	PropertyID  string         `json:"property_id"`
	Tier        string         `json:"tier"`
	Seed        int            `json:"seed"`
	Level       string         `json:"level"`
	Coverage    map[string]any `json:"coverage"`
	Assumptions []string       `json:"assumptions"`
	WallS       float64        `json:"wall_s"`
	Violations  int            `json:"violations"`
}

func writeEvidenceFile(id, tier string, seed int, obs []*Ob, seeds []seedResult, nknown, nviol int, wall time.Duration, c *Ctx, perRule map[string]int, loadErr string) {
	os.MkdirAll(filepath.Join(verifDir, "evidence"), 0o755)
	npass := 0
	distinct := map[string]bool{}
	ruleCounts := map[string]int{}
	funcs := map[string]bool{}
	for _, o := range obs {
		if o.v == Pass {
			npass++
		}
		distinct[o.Rule+"|"+o.Key] = true
		ruleCounts[o.Rule]++
		if i := strings.Index(o.Pos, ":"); i > 0 {
			funcs[o.Pos[:i]] = true
		}
	}
	var ruleDocs []string
	seen := map[string]bool{}
	for _, r := range rules {
		if has(r.Props, id) && !seen[r.ID] {
			seen[r.ID] = true
			ruleDocs = append(ruleDocs, r.ID+": "+strings.Join(strings.Fields(r.Doc), " "))
		}
	}
	// samples: first few passes + every non-pass
	var samples []any
	nshown := 0
	for _, o := range obs {
		if o.v != Pass || nshown < 8 {
			samples = append(samples, o)
			if o.v == Pass {
				nshown++
			}
		}
	}
	if samples == nil {
		samples = []any{}
	}
	var files []string
	for f := range funcs {
		files = append(files, f)
	}
	sort.Strings(files)
	cov := map[string]any{
		"explanation": "Static analysis of /repo's current source (go/packages + go/types, go/cfg, go/ssa). " +
			"Each obligation is one rule applied to one resolved construct (function, call site, table, closure); " +
			"a rule decides a structural necessary condition of the property on every path of the construct, not the behaviour itself. Rules: " +
			strings.Join(ruleDocs, " || "),
		"obligations":         len(obs),
		"discharged":          npass,
		"known_findings":      nknown,
		"evaluations":         len(obs),
		"distinct_nontrivial": len(distinct),
		"rule":                "instances are enumerated from the type-checked program by each rule's recogniser; distinct = distinct (rule, construct key); every instance carries a non-empty obligation",
		"samples":             samples,
		"per_rule_instances":  ruleCounts,
		"files_with_instances": files,
		"checker_cmd":         fmt.Sprintf("./bin/obiverif check %s --tier %s", id, tier),
		"trusted_base":        []string{"go/packages, go/types, go/cfg, go/ssa (x/tools v0.29.0)", "oracles embedded in the checker (IUPAC table, math/bits conventions, no-return and lock summaries)"},
		"exhaustive":          false,
	}
	if c != nil {
		cov["packages_loaded"] = len(c.Pkgs)
		cov["functions_in_program"] = c.nFuncs
		cov["load_s"] = c.loadTime.Seconds()
		cov["excluded"] = "cmd/test (does not compile upstream), _test.go files"
	}
	if loadErr != "" {
		cov["load_error"] = loadErr
	}
	if tier == "thorough" {
		nfired := 0
		var ss []any
		for _, s := range seeds {
			if s.ok {
				nfired++
			}
			ss = append(ss, map[string]any{"seed": s.name, "ok": s.ok, "msg": s.msg})
		}
		cov["programs"] = len(seeds)
		cov["seeds_detected"] = nfired
		cov["seeds"] = ss
	}
	ev := evidence{PropertyID: id, Tier: tier, Seed: seed, Level: "other", Coverage: cov,
		Assumptions: []string{
			"the loaded packages (./pkg/... ./cmd/obitools/...) are the program the build produces; the repository has no build tags",
			"third-party libraries behave as documented (decompressors report truncation, go-json/encoding/csv emit well-formed text, logrus.Fatal exits 1)",
			"a green check means no enumerated mechanism is broken on any path; it does not establish the behavioural property",
		},
		WallS: wall.Seconds(), Violations: nviol}
	data, _ := json.MarshalIndent(ev, "", " ")
	os.WriteFile(filepath.Join(verifDir, "evidence", id+".json"), data, 0o644)
}
