package main

// IT-6b — a goroutine does not reassign a variable its creator still reads (C05, C03).

import (
	"fmt"
	"go/ast"
	"go/token"
	"go/types"

	"golang.org/x/tools/go/packages"
)

func init() {
	register(&Rule{
		ID: "IT-6b", Props: []string{"C05", "C03"}, Min: 1,
		Doc: `"the bytes produced … do not depend on … goroutine scheduling": the sibling of IT-6 seen from the other side. In pkg/obiiter, pkg/obichunk and pkg/obiformats, a function literal started with go
does not assign a variable of the enclosing function (its receiver, a parameter, a local) that the enclosing function reads AFTER the go statement: the two accesses are not ordered — a data
race by the Go memory model (go test -race reports FilterEmpty and Rebatch in every pipeline), whose outcome is only harmless as long as both values answer alike. The goroutine keeps what it
derives in a variable of its own.`,
		Run: func(c *Ctx, s *Sink) {
			c.EachFunc([]string{"pkg/obiiter", "pkg/obichunk", "pkg/obiformats"}, func(p *packages.Package, fd *ast.FuncDecl) {
				info := p.TypesInfo
				n := 0
				ast.Inspect(fd.Body, func(nd ast.Node) bool {
					g, ok := nd.(*ast.GoStmt)
					if !ok {
						return true
					}
					lit, ok := g.Call.Fun.(*ast.FuncLit)
					if !ok {
						return true
					}
					// variables of the enclosing function assigned in the literal
					assigned := map[types.Object]token.Pos{}
					ast.Inspect(lit.Body, func(m ast.Node) bool {
						as, ok := m.(*ast.AssignStmt)
						if !ok || as.Tok == token.DEFINE {
							return true
						}
						for _, l := range as.Lhs {
							id, ok := ast.Unparen(l).(*ast.Ident)
							if !ok {
								continue
							}
							o := info.ObjectOf(id)
							if o == nil || o.Pos() >= lit.Pos() && o.Pos() < lit.End() {
								continue
							}
							if v, isVar := o.(*types.Var); !isVar || v.Parent() == p.Types.Scope() {
								continue
							}
							assigned[o] = as.Pos()
						}
						return true
					})
					for o, pos := range assigned {
						// read by the enclosing function after the go statement, outside that literal
						readAfter := token.NoPos
						ast.Inspect(fd.Body, func(m ast.Node) bool {
							if m == ast.Node(lit) {
								return false
							}
							if id, ok := m.(*ast.Ident); ok && info.Uses[id] == o && id.Pos() > g.End() && !readAfter.IsValid() {
								readAfter = id.Pos()
							}
							return true
						})
						n++
						key := fmt.Sprintf("%s:go#%d:%s", funcName(p, fd), n, o.Name())
						if readAfter.IsValid() {
							s.Fail(nil, key, pos, "the goroutine assigns "+o.Name()+", which the function that started it reads afterwards ("+c.Pos(readAfter)+"): the two accesses race (go test -race: FilterEmpty, Rebatch, in every command) — harmless only while both values answer the same")
						} else {
							s.Pass(nil, key, pos, "assigned in the goroutine, not read afterwards by its creator")
						}
					}
					return true
				})
			})
		},
	})
}
