package main

// CX — in the complemented pattern a '#' stays with its position, class or symbol (C10).

import (
	"fmt"
	"path/filepath"
)

func init() {
	register(&Rule{
		ID: "CX", Props: []string{"C10"}, Min: 1,
		Doc: `"a pattern and its reverse complement find the mirrored hits": ecoComplementPattern (obiapat.c, through clang's AST) moves the positions of the pattern one by one; a position is an optional
'!', a symbol or a class '[…]', and an optional '#'. In the loop that delimits a position, the test of '#' applies after BOTH forms: it is a statement of the loop body itself (after the if/else
that skips the class or the symbol), or it stands in each of the two branches. Under the symbol branch only, GA[CT]#AGTC is complemented to GACT#[GA]TC: the mismatch is forbidden on the wrong
position, and a class in last position cannot be complemented at all ("Error in pattern checking").`,
		Run: func(c *Ctx, s *Sink) {
			dir := filepath.Join(c.Repo, "pkg/obiapat")
			key := "pkg/obiapat/obiapat.c:ecoComplementPattern:hash-follows-class-and-symbol"
			fn, err := clangFunc(dir, "obiapat.c", "ecoComplementPattern")
			if err != nil {
				s.Undecided(nil, key, 0, err.Error())
				return
			}
			isCharTest := func(n *cnode, ch int64) bool {
				found := false
				n.walk(func(m *cnode, _ []*cnode) {
					if m.Kind == "BinaryOperator" && m.Op == "==" && len(m.Inner) == 2 {
						for _, side := range m.Inner {
							if v, ok := cIntValue(side); ok && v == ch {
								found = true
							}
						}
					}
				})
				return found
			}
			var loops []*cnode
			fn.walk(func(n *cnode, _ []*cnode) {
				if n.Kind == "WhileStmt" || n.Kind == "ForStmt" {
					loops = append(loops, n)
				}
			})
			verdict, seen := false, false
			for _, lp := range loops {
				if len(lp.Inner) == 0 {
					continue
				}
				body := lp.Inner[len(lp.Inner)-1]
				if body.Kind != "CompoundStmt" {
					continue
				}
				// the loop that delimits the positions: it tests '[' somewhere
				hasClass := false
				for _, st := range body.Inner {
					if st.Kind == "IfStmt" && len(st.Inner) > 0 && isCharTest(st.Inner[0], '[') {
						hasClass = true
					}
				}
				if !hasClass {
					continue
				}
				seen = true
				direct := false
				inBranches := 0
				for _, st := range body.Inner {
					if st.Kind != "IfStmt" || len(st.Inner) == 0 {
						continue
					}
					if isCharTest(st.Inner[0], '#') {
						direct = true
					}
					if isCharTest(st.Inner[0], '[') {
						// then / else branches
						for _, br := range st.Inner[1:] {
							has := false
							br.walk(func(m *cnode, _ []*cnode) {
								if m.Kind == "IfStmt" && len(m.Inner) > 0 && isCharTest(m.Inner[0], '#') {
									has = true
								}
							})
							if has {
								inBranches++
							}
						}
					}
				}
				if direct || inBranches >= 2 {
					verdict = true
				}
			}
			pos := fmt.Sprintf("pkg/obiapat/obiapat.c:%d", cLine(fn))
			switch {
			case !seen:
				o := s.add(Undecided, nil, key, 0, "no loop delimiting the positions of the pattern (a test of '[') found in ecoComplementPattern")
				o.Pos = pos
			case verdict:
				o := s.add(Pass, nil, key, 0, "the '#' is taken with its position after a class as after a symbol")
				o.Pos = pos
			default:
				o := s.add(Violation, nil, key, 0, "the '#' is only taken with its position when that position is a plain symbol: GA[CT]#AGTC is reverse-complemented to GACT#[GA]TC instead of GACT[AG]#TC — the hits of the reversed pattern on the reversed sequence are not the mirrored hits, and a '[..]#' in last position gives \"Error in pattern checking\"")
				o.Pos = pos
			}
		},
	})
}
