package main

// DO — an option that is accepted is read (C16).

import (
	"go/ast"
	"go/constant"
	"go/token"
	"go/types"
	"sort"
	"strings"
)

// doScope: the option sets of the commands the properties name (C16: obigrep, obiannotate, obidistribute, obimultiplex; C02: the CSV writer) and the ones they all share.
var doScope = map[string]bool{
	"pkg/obioptions": true, "pkg/obitools/obiconvert": true, "pkg/obitools/obigrep": true, "pkg/obitools/obiannotate": true,
	"pkg/obitools/obidistribute": true, "pkg/obitools/obimultiplex": true, "pkg/obitools/obicsv": true,
}

// doKnown: options that are declared and deliberately without effect — one line of reason each.
var doKnown = map[string]string{}

func init() {
	register(&Rule{
		ID: "DO", Props: []string{"C16", "C02"}, Min: 60,
		Doc: `"applies every requested edit / criterion": an option the command accepts and documents has an effect. For every option bound to a package variable with a …Var(&v, "name", …) call of go-getoptions in
the packages of obigrep, obiannotate, obidistribute, obimultiplex, obicsv, obiconvert and pkg/obioptions, v is read by some function other than the declaration, and that function is itself referenced somewhere in the program (followed through accessors up to four
levels). obicsv accepted --quality/-q and --na-value, whose accessors CLIPrintQuality and CLINAValue had no caller: the column was never written and NA could not be changed.`,
		Run: func(c *Ctx, s *Sink) {
			// uses of every object, by enclosing function
			type fkey struct{ obj types.Object }
			refsOf := map[types.Object][]types.Object{} // object -> functions (objects) whose body references it
			topLevelRef := map[types.Object]bool{}       // referenced outside any function body (a var initialiser, a main…)
			for _, p := range c.Pkgs {
				info := p.TypesInfo
				for _, f := range p.Syntax {
					for _, d := range f.Decls {
						fd, ok := d.(*ast.FuncDecl)
						if !ok {
							ast.Inspect(d, func(n ast.Node) bool {
								if id, ok := n.(*ast.Ident); ok {
									if o := info.Uses[id]; o != nil {
										topLevelRef[o] = true
									}
								}
								return true
							})
							continue
						}
						if fd.Body == nil {
							continue
						}
						self := info.Defs[fd.Name]
						ast.Inspect(fd.Body, func(n ast.Node) bool {
							if id, ok := n.(*ast.Ident); ok {
								if o := info.Uses[id]; o != nil {
									refsOf[o] = append(refsOf[o], self)
								}
							}
							return true
						})
					}
				}
			}
			var live func(fn types.Object, depth int, seen map[types.Object]bool) bool
			live = func(fn types.Object, depth int, seen map[types.Object]bool) bool {
				if fn == nil || seen[fn] {
					return false
				}
				seen[fn] = true
				if fn.Name() == "main" || fn.Name() == "init" {
					return true
				}
				if topLevelRef[fn] {
					return true
				}
				if f, ok := fn.(*types.Func); ok {
					if sig := f.Type().(*types.Signature); sig.Recv() != nil {
						return true // a method: reached through its type
					}
				}
				if depth > 4 {
					return len(refsOf[fn]) > 0
				}
				for _, caller := range refsOf[fn] {
					if caller == fn {
						continue
					}
					if live(caller, depth+1, seen) {
						return true
					}
				}
				return false
			}
			for _, p := range c.sortedPkgs() {
				r := rel(p.PkgPath)
				if !doScope[r] {
					continue
				}
				info := p.TypesInfo
				for _, f := range p.Syntax {
					ast.Inspect(f, func(n ast.Node) bool {
						call, ok := n.(*ast.CallExpr)
						if !ok || len(call.Args) < 2 {
							return true
						}
						fn := fullName(callee(info, call))
						if !strings.HasPrefix(fn, "github.com/DavidGamba/go-getoptions.(GetOpt).") || !strings.HasSuffix(fn, "Var") {
							return true
						}
						u, ok := ast.Unparen(call.Args[0]).(*ast.UnaryExpr)
						if !ok || u.Op != token.AND {
							return true
						}
						v := rootObj(info, u.X)
						tv, ok2 := info.Types[call.Args[1]]
						if v == nil || !ok2 || tv.Value == nil || tv.Value.Kind() != constant.String {
							return true
						}
						name := constant.StringVal(tv.Value)
						key := r + ":--" + name + ":read"
						// the functions reading v, other than the one declaring the option
						var readers []types.Object
						for _, fo := range refsOf[v] {
							readers = append(readers, fo)
						}
						// the declaring function references v twice or more (address, default value): it is a reader only if another statement uses it
						ok = false
						why := ""
						sort.Slice(readers, func(i, j int) bool { return readers[i].Name() < readers[j].Name() })
						for _, fo := range readers {
							if fd, _ := c.FindFunc(r, fo.Name()); fd != nil && fd.Body != nil && fd.Body.Pos() <= call.Pos() && call.End() <= fd.Body.End() {
								// the declaring function: uses outside option declarations?
								other := false
								ast.Inspect(fd.Body, func(m ast.Node) bool {
									if c2, isC := m.(*ast.CallExpr); isC && strings.HasPrefix(fullName(callee(info, c2)), "github.com/DavidGamba/go-getoptions.") {
										return false
									}
									if id, isI := m.(*ast.Ident); isI && info.Uses[id] == v {
										other = true
									}
									return true
								})
								if !other {
									continue
								}
							}
							if live(fo, 0, map[types.Object]bool{}) {
								ok, why = true, fo.Name()
								break
							}
						}
						if reason, known := doKnown[r+":--"+name]; known && !ok {
							s.Pass(nil, key, call.Pos(), "tabled: "+reason)
							return true
						}
						if ok {
							s.Pass(nil, key, call.Pos(), "read by "+why+", which the program reaches")
						} else {
							s.Fail(nil, key, call.Pos(), "the option --"+name+" is accepted and documented but nothing the program reaches reads its value: obicsv --quality (-q) never printed the scores and --na-value never changed the text for a missing value — their accessors had no caller")
						}
						return true
					})
				}
			}
		},
	})
}
