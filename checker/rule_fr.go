package main

// FR — frame of reference of re-aligned pattern matches (C10).

import (
	"fmt"
	"go/ast"
	"go/token"
	"go/types"

	"golang.org/x/tools/go/packages"
)

func init() {
	register(&Rule{
		ID: "FR", Props: []string{"C10"}, Min: 2,
		Doc: `frame of reference of re-aligned hits: obialign.LocatePattern returns offsets relative to the fragment S[lo:hi] it is given. At every call site the absolute start and
end must be lo + from and lo + to, with lo the value that was the low bound of the slice: lo may not be reassigned between the slicing and either use (a start that has already
been translated must not serve as the base of the end). FR-clamp: the bounds of the fragment are clamped with max(·,0) and min(·,Len()) before slicing, so every reported span
lies inside the sequence, and the low bound is also clamped to the beginning of the search window (the first integer parameter of the function): a re-aligned match does not start before the
window it was searched in.`,
		Run: runFR,
	})
}

func runFR(c *Ctx, s *Sink) {
	c.EachFunc([]string{"pkg/obiapat"}, func(p *packages.Package, fd *ast.FuncDecl) {
		info := p.TypesInfo
		n := 0
		var visitList func(list []ast.Stmt)
		visitList = func(list []ast.Stmt) {
			for i, st := range list {
				// descend
				ast.Inspect(st, func(m ast.Node) bool {
					if b, ok := m.(*ast.BlockStmt); ok {
						visitList(b.List)
						return false
					}
					return true
				})
				as, ok := st.(*ast.AssignStmt)
				if !ok || len(as.Rhs) != 1 || len(as.Lhs) != 3 {
					continue
				}
				call, ok := ast.Unparen(as.Rhs[0]).(*ast.CallExpr)
				if !ok || !isLocateCall(info, call) || locateFragment(info, call) == nil {
					continue
				}
				frgArg := locateFragment(info, call)
				n++
				key := fmt.Sprintf("%s:LocatePattern#%d", funcName(p, fd), n)
				from, to := rootObj(info, as.Lhs[0]), rootObj(info, as.Lhs[1])
				// fragment definition
				frgObj := rootObj(info, frgArg)
				var sl *ast.SliceExpr
				var slPos token.Pos
				for j := i - 1; j >= 0; j-- {
					if fa, ok := list[j].(*ast.AssignStmt); ok && len(fa.Lhs) == 1 && len(fa.Rhs) == 1 && rootObj(info, fa.Lhs[0]) == frgObj {
						if se, ok := ast.Unparen(fa.Rhs[0]).(*ast.SliceExpr); ok {
							sl, slPos = se, fa.Pos()
						}
						break
					}
				}
				if se, ok := ast.Unparen(frgArg).(*ast.SliceExpr); ok {
					sl, slPos = se, as.Pos()
				}
				if sl == nil || sl.Low == nil || sl.High == nil {
					s.Undecided(nil, key, call.Pos(), "the fragment given to LocatePattern is not a slice expression with explicit bounds in the same block")
					continue
				}
				lo, hi := rootObj(info, sl.Low), rootObj(info, sl.High)
				if lo == nil || hi == nil {
					s.Undecided(nil, key, call.Pos(), "fragment bounds are not plain variables")
					continue
				}
				// uses of from / to after the call
				reassigned := func(o types.Object, a, b token.Pos) token.Pos {
					pos := token.NoPos
					for _, st2 := range list {
						if st2.Pos() <= a || st2.Pos() >= b {
							continue
						}
						if a2, ok := st2.(*ast.AssignStmt); ok {
							for _, l := range a2.Lhs {
								if id, ok := ast.Unparen(l).(*ast.Ident); ok && info.ObjectOf(id) == o {
									pos = a2.Pos()
								}
							}
						}
					}
					return pos
				}
				problems := []string{}
				found := map[types.Object]bool{}
				for _, st2 := range list[i+1:] {
					a2, ok := st2.(*ast.AssignStmt)
					if !ok || len(a2.Rhs) != len(a2.Lhs) {
						continue
					}
					for k, r := range a2.Rhs {
						var b *ast.BinaryExpr
						ast.Inspect(r, func(m ast.Node) bool {
							if be, ok := m.(*ast.BinaryExpr); ok && be.Op == token.ADD && b == nil {
								if o := frOperand(info, be.X); o == from || o == to {
									b = be
								} else if o := frOperand(info, be.Y); o == from || o == to {
									b = be
								}
							}
							return true
						})
						if b == nil {
							continue
						}
						x, y := frOperand(info, b.X), frOperand(info, b.Y)
						var off, base types.Object
						switch {
						case y == from || y == to:
							off, base = y, x
						case x == from || x == to:
							off, base = x, y
						default:
							continue
						}
						_ = k
						found[off] = true
						name := map[bool]string{true: "start", false: "end"}[off == from]
						if base != lo {
							problems = append(problems, fmt.Sprintf("the absolute %s is computed from %s instead of the fragment's low bound %s", name, base.Name(), lo.Name()))
							continue
						}
						if rp := reassigned(lo, slPos, a2.Pos()); rp != token.NoPos {
							problems = append(problems, fmt.Sprintf("the absolute %s adds the offset to %s, but %s was reassigned at %s after the fragment was cut: the offset is applied in the wrong frame (shifted by the first offset)", name, lo.Name(), lo.Name(), c.Pos(rp)))
						}
					}
				}
				if !found[from] || !found[to] {
					s.Undecided(nil, key, call.Pos(), "cannot find the translation of both offsets (lo + from, lo + to) after the call")
					continue
				}
				// clamps
				clampOK := func(o types.Object, fn string) bool {
					ok := false
					for _, st2 := range list[:i] {
						if a2, isA := st2.(*ast.AssignStmt); isA && len(a2.Lhs) == 1 && rootObj(info, a2.Lhs[0]) == o && a2.Pos() < slPos {
							ok = false
							if cl, isC := ast.Unparen(a2.Rhs[0]).(*ast.CallExpr); isC {
								if id, isI := cl.Fun.(*ast.Ident); isI && id.Name == fn {
									ok = true
								}
							}
						}
					}
					return ok
				}
				// FR-out: LocatePattern's matrix has a row -1 and its backtracking loop runs while j > 0 only,
				// so the start offset it returns can be -1 when the pattern overhangs the beginning of the
				// fragment: the translated start must be clamped to >= 0 before it is reported.
				outClamped := false
				for _, st2 := range list[i+1:] {
					a2, ok := st2.(*ast.AssignStmt)
					if !ok || len(a2.Rhs) != 1 {
						continue
					}
					// a clamp max(…from…, c) anywhere in the right-hand side
					ast.Inspect(a2.Rhs[0], func(m ast.Node) bool {
						if cl, isC := m.(*ast.CallExpr); isC {
							if id, isI := cl.Fun.(*ast.Ident); isI && id.Name == "max" && mentionsVar(info, cl, from) {
								outClamped = true
							}
						}
						return true
					})
					if cl, isC := ast.Unparen(a2.Rhs[0]).(*ast.CallExpr); isC {
						if id, isI := cl.Fun.(*ast.Ident); isI && id.Name == "max" && len(cl.Args) == 2 {
							// x = max(x, 0) on the translated start
							for _, prev := range list[i+1:] {
								if pa, ok := prev.(*ast.AssignStmt); ok && pa.Pos() < a2.Pos() && len(pa.Lhs) == 1 && mentionsVar(info, pa.Rhs[0], from) &&
									types.ExprString(pa.Lhs[0]) == types.ExprString(cl.Args[0]) {
									outClamped = true
								}
							}
						}
					}
				}
				if !outClamped {
					problems = append(problems, "the start offset returned by LocatePattern can be -1 (pattern overhanging the beginning of the fragment: the backtracking may end in the matrix row -1) and is reported without being clamped to 0: the span lies outside the sequence")
				}
				if !clampOK(lo, "max") {
					problems = append(problems, "the low bound of the fragment is not clamped with max(·, 0) before slicing")
				} else {
					// FR-window: the window of the search (first integer parameter: its beginning) bounds the fragment too
					var begin types.Object
					for _, id := range flattenParams(fd.Type.Params) {
						if id == nil || begin != nil {
							continue
						}
						if b, ok := info.ObjectOf(id).Type().Underlying().(*types.Basic); ok && b.Info()&types.IsInteger != 0 {
							begin = info.ObjectOf(id)
						}
					}
					if begin != nil {
						inWindow := false
						for _, st2 := range list[:i] {
							if a2, isA := st2.(*ast.AssignStmt); isA && len(a2.Lhs) == 1 && rootObj(info, a2.Lhs[0]) == lo && a2.Pos() < slPos {
								ast.Inspect(a2.Rhs[0], func(m ast.Node) bool {
									if id, ok := m.(*ast.Ident); ok && info.Uses[id] == begin {
										inWindow = true
									}
									return true
								})
							}
						}
						if !inWindow {
							problems = append(problems, "the low bound of the fragment is clamped to 0 but not to the beginning of the search window ("+begin.Name()+"): a hit at the start of the window is re-aligned with the bases that precede the window — primer GGGCAATCCTGAGCCAA lacking its first G behind an 8 nt tag ending in g, searched from 8 with 2 errors: the match is reported at [7,24) with 0 error, outside the window (obimultiplex then reads a 7-base tag), instead of [8,24) with 1 error")
						}
					}
				}
				// FR-hi: the high bound is the end of the hit plus its margin, not the (clipped) low bound plus a length:
				// once the low bound is clipped to the start of the sequence or of the window the fragment would slide to the right
				for _, st2 := range list[:i] {
					if a2, isA := st2.(*ast.AssignStmt); isA && len(a2.Lhs) == 1 && len(a2.Rhs) == 1 && rootObj(info, a2.Lhs[0]) == hi && a2.Pos() < slPos {
						if id, isI := a2.Lhs[0].(*ast.Ident); !isI || info.ObjectOf(id) != hi {
							continue
						}
						if mentionsVar(info, a2.Rhs[0], lo) {
							problems = append(problems, "the high bound of the fragment is computed from its low bound ("+types.ExprString(a2.Rhs[0])+"), which has been clipped to the start of the sequence or of the window: the fragment of a hit truncated by that start slides to the right and reaches the next hit — CCAGHCCTTAGH, 4 errors: the two hits FilterBestMatch keeps, [-4 8 4] and [16 28 3], are both re-aligned onto [18 28 3]; the same occurrence is reported twice and the truncated one is lost")
						}
					}
				}
				if !clampOK(hi, "min") {
					problems = append(problems, "the high bound of the fragment is not clamped with min(·, Len()) before slicing")
				}
				if len(problems) > 0 {
					s.Fail(nil, key, call.Pos(), problems[0], problems...)
				} else {
					s.Pass(nil, key, call.Pos(), "start = lo + from and end = lo + to with lo unchanged since the fragment was cut; bounds clamped before slicing")
				}
			}
		}
		visitList(fd.Body.List)
	})
}

// frOperand: the variable an operand stands for, seen through a clamp max(v, c) / min(v, c) with a constant.
func frOperand(info *types.Info, e ast.Expr) types.Object {
	e = ast.Unparen(e)
	if call, ok := e.(*ast.CallExpr); ok && len(call.Args) == 2 {
		if id, ok := call.Fun.(*ast.Ident); ok && (id.Name == "max" || id.Name == "min") {
			for i, a := range call.Args {
				if _, isConst := constInt(info, call.Args[1-i]); isConst {
					return rootObj(info, a)
				}
			}
		}
	}
	return rootObj(info, e)
}
