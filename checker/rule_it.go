package main

// IT-1 lifecycle, IT-2 producer count, IT-3 exactly one Done, IT-6 capture
// stability.  (IT-4 order discipline is in rule_it4.go.)

import (
	"fmt"
	"go/ast"
	"go/token"
	"go/types"
	"strings"

	"golang.org/x/tools/go/packages"
)

// itProps attributes an iterator site to properties by package/function.
func itProps(h *itHandle) []string {
	r := rel(h.pkg.PkgPath)
	props := []string{"C03"}
	file := h.pkg.Fset.Position(h.fd.Pos()).Filename
	base := file[strings.LastIndex(file, "/")+1:]
	switch {
	case r == "pkg/obiformats" && (strings.Contains(base, "write") || strings.Contains(base, "writer")):
		props = append(props, "C04")
	case r == "pkg/obiformats":
		props = append(props, "C01")
	case r == "pkg/obichunk":
		props = append(props, "C06")
	}
	if r == "pkg/obiiter" && (h.fd.Name.Name == "IMergeSequenceBatch" || h.fd.Name.Name == "Distribute") {
		props = append(props, "C06")
	}
	if r == "pkg/obiiter" && (h.fd.Name.Name == "DivideOn" || h.fd.Name.Name == "Distribute" || h.fd.Name.Name == "PairTo" || h.fd.Name.Name == "FilterOn" || h.fd.Name.Name == "FilterAnd") {
		props = append(props, "C16")
	}
	// stages every reader is built from (C01 anchors pkg/obiiter/batchiterator.go)
	if r == "pkg/obiiter" && (h.fd.Name.Name == "SortBatches" || h.fd.Name.Name == "Rebatch") {
		props = append(props, "C01")
	}
	return props
}

var allHandles []*itHandle
var allHandlesFor *Ctx

func itHandles(c *Ctx) []*itHandle {
	if allHandlesFor == c {
		return allHandles
	}
	var hs []*itHandle
	c.EachFunc(nil, func(p *packages.Package, fd *ast.FuncDecl) {
		for _, h := range findHandles(c, p, fd) {
			h.analyse(c)
			hs = append(hs, h)
		}
	})
	allHandles, allHandlesFor = hs, c
	return hs
}

func init() {
	register(&Rule{
		ID: "IT-1", Props: []string{"C03", "C04", "C01", "C06", "C16"}, Min: 30,
		Doc: `iterator lifecycle: every iterator created by MakeIBioSequence() is closed exactly once, by a closer that cannot run before the last push:
(a) go func(){X.WaitAndClose()} or X.Wait();X.Close() in a goroutine, with Add/Done accounting (IT-2/IT-3); (b) X.Close() after W.Wait() where every
pusher signals W after its last push; (c) X.Close() in the body that holds all pushes, after them; (d) no push at all.`,
		Run: runIT1,
	})
	register(&Rule{
		ID: "IT-2", Props: []string{"C03", "C04", "C01", "C06", "C16"}, Min: 28,
		Doc: `producer count: the total amount given to X.Add equals the number of goroutines launched that call X.Done, compared symbolically
(polynomials over loop trip counts, branch and closure multiplicities; for i:=a;i<b;i++ contributes b-a).`,
		Run: runIT2,
	})
	register(&Rule{
		ID: "IT-3", Props: []string{"C03", "C04", "C01", "C06", "C16"}, Min: 28,
		Doc: `exactly one Done: in every producer body each path from entry to a normal exit executes X.Done() exactly once (directly or deferred) and no push
follows it (typestate over go/cfg; fatal logging, panic and os.Exit are no-return).`,
		Run: runIT3,
	})
	register(&Rule{
		ID: "IT-6", Props: []string{"C03", "C04", "C01", "C06", "C16"}, Min: 30,
		Doc: `capture stability: a handle variable captured by a function literal started with go must not be reassigned after its creation in the
creating function (the goroutine may observe the new value and run the protocol on another iterator: double close / never closed, schedule dependent).`,
		Run: runIT6,
	})
}

func inGoroutine(h *itHandle, b *itBody) bool {
	for _, l := range h.launches {
		if l.target == b {
			return true
		}
	}
	return false
}

func stmtListOf(path []ast.Node, node ast.Node) ([]ast.Stmt, int) {
	// find the statement in the path that is a direct child of a block
	for i := len(path) - 1; i > 0; i-- {
		var list []ast.Stmt
		switch blk := path[i-1].(type) {
		case *ast.BlockStmt:
			list = blk.List
		case *ast.CaseClause:
			list = blk.Body
		case *ast.CommClause:
			list = blk.Body
		default:
			continue
		}
		for j, s := range list {
			if s == path[i] {
				return list, j
			}
		}
	}
	return nil, -1
}

func runIT1(c *Ctx, s *Sink) {
	for _, h := range itHandles(c) {
		props := itProps(h)
		key := h.key()
		info := h.pkg.TypesInfo
		closers := append(h.eventsOf("WaitAndClose"), h.eventsOf("Close")...)
		pushes := h.eventsOf("Push")
		adds := h.eventsOf("Add")
		if len(closers) == 0 {
			s.Fail(props, key, h.create.Pos(), "iterator is never closed: consumers of "+h.name+" never terminate")
			continue
		}
		if len(closers) > 1 {
			s.Fail(props, key, closers[1].pos(), fmt.Sprintf("iterator %s has %d close sites (double close panics / depends on scheduling)", h.name, len(closers)))
			continue
		}
		cl := closers[0]
		waitBased := cl.kind == "WaitAndClose"
		var prevWait ast.Expr // receiver of a Wait-like call preceding a bare Close
		if cl.kind == "Close" {
			list, i := stmtListOf(cl.path, cl.node)
			for j := i - 1; j >= 0 && list != nil; j-- {
				es, ok := list[j].(*ast.ExprStmt)
				if !ok {
					continue
				}
				call, ok := es.X.(*ast.CallExpr)
				if !ok {
					continue
				}
				sel, ok := call.Fun.(*ast.SelectorExpr)
				if !ok {
					continue
				}
				if sel.Sel.Name == "Wait" || sel.Sel.Name == "WaitAndClose" {
					if h.denotes(info, sel.X) && sel.Sel.Name == "Wait" {
						waitBased = true
					} else {
						prevWait = sel.X
					}
					break
				}
			}
			// closer inside a range loop over the map whose Wait precedes the loop
			if prevWait == nil && !waitBased && h.mapElem {
				for k := len(cl.path) - 1; k >= 0; k-- {
					if rs, ok := cl.path[k].(*ast.RangeStmt); ok {
						list, i := stmtListOf(cl.path[:k+1], rs)
						for j := i - 1; j >= 0 && list != nil; j-- {
							if es, ok := list[j].(*ast.ExprStmt); ok {
								if call, ok := es.X.(*ast.CallExpr); ok {
									if sel, ok := call.Fun.(*ast.SelectorExpr); ok && sel.Sel.Name == "Wait" {
										prevWait = sel.X
									}
								}
							}
						}
						break
					}
				}
			}
		}
		switch {
		case waitBased:
			if !inGoroutine(h, cl.body) {
				s.Fail(props, key, cl.pos(), "the waiting closer of "+h.name+" runs synchronously in the creating function: it blocks before any consumer can exist")
				continue
			}
			if len(adds) == 0 {
				s.Fail(props, key, cl.pos(), "closer waits on "+h.name+"'s WaitGroup but nothing is ever added to it: the iterator is closed before the pushes")
				continue
			}
			// every push must be in a producer body (one that calls Done)
			prods := map[*itBody]bool{}
			for _, b := range h.producers() {
				prods[b] = true
			}
			bad := false
			for _, p := range pushes {
				if !prods[p.body] {
					s.Fail(props, key, p.pos(), "push on "+h.name+" from a body that never calls "+h.name+".Done(): the closer does not wait for it")
					bad = true
					break
				}
			}
			if !bad {
				s.Pass(props, key, cl.pos(), "closed once by a waiting closer goroutine; all pushes are in registered producers")
			}
		case len(pushes) == 0 && len(adds) == 0:
			s.Pass(props, key, cl.pos(), "closed once; no push and no producer")
		case prevWait != nil:
			// (b): every push must be in a body that calls <prevWait>.Done() after it
			ok := true
			wname := types.ExprString(prevWait)
			for _, p := range pushes {
				if !bodySignalsAfter(h.pkg.TypesInfo, p.body, prevWait, p.node) {
					s.Fail(props, key, p.pos(), "push on "+h.name+" is not followed by "+wname+".Done() in its body, but the closer only waits for "+wname)
					ok = false
					break
				}
			}
			if ok {
				s.Pass(props, key, cl.pos(), "closed once after "+wname+".Wait(); every pusher signals "+wname+" after its last push")
			}
		default:
			// (c): Close in the body holding all pushes, after them
			ok := true
			for _, p := range pushes {
				if p.body != cl.body {
					s.Fail(props, key, cl.pos(), "bare Close of "+h.name+" without a wait, while a push happens in another body (goroutine): close may precede the push")
					ok = false
					break
				}
			}
			if ok && len(adds) > 0 {
				s.Fail(props, key, cl.pos(), h.name+".Add is used but the closer does not wait")
				ok = false
			}
			if ok && pushReachableAfter(h, cl) {
				s.Fail(props, key, cl.pos(), "a push on "+h.name+" is reachable after its Close")
				ok = false
			}
			if ok {
				s.Pass(props, key, cl.pos(), "closed once by its single producer after the last push")
			}
		}
	}
}

// bodySignalsAfter: body contains a call <w>.Done() positioned after node and
// not inside a loop that contains node (syntactic post-position in the same
// function body; the exactly-once property of that Done is IT-3's when w is
// an iterator).
func bodySignalsAfter(info *types.Info, b *itBody, w ast.Expr, node ast.Node) bool {
	wobj := rootObj(info, w)
	found := false
	ast.Inspect(b.body, func(n ast.Node) bool {
		if _, ok := n.(*ast.FuncLit); ok {
			return false
		}
		if call, ok := n.(*ast.CallExpr); ok {
			if sel, ok := call.Fun.(*ast.SelectorExpr); ok && sel.Sel.Name == "Done" && rootObj(info, sel.X) == wobj && wobj != nil {
				if call.Pos() > node.End() {
					found = true
				}
			}
		}
		return true
	})
	return found
}

func rootObj(info *types.Info, e ast.Expr) types.Object {
	switch x := ast.Unparen(e).(type) {
	case *ast.Ident:
		return info.ObjectOf(x)
	case *ast.UnaryExpr:
		return rootObj(info, x.X)
	}
	return nil
}

func pushReachableAfter(h *itHandle, cl *itEvent) bool {
	g := buildCFG(cl.body.pkg.TypesInfo, cl.body.body)
	pushNodes := map[ast.Node]bool{}
	for _, p := range h.eventsIn(cl.body, "Push") {
		pushNodes[p.node] = true
	}
	ts := &typestate{g: g, init: 0, info: cl.body.pkg.TypesInfo,
		events: func(n ast.Node) []tsEvent {
			var evs []tsEvent
			visitEval(n, func(m ast.Node) {
				if m == cl.node {
					evs = append(evs, tsEvent{kind: "close", node: m})
				} else if pushNodes[m] {
					evs = append(evs, tsEvent{kind: "push", node: m})
				}
			})
			return evs
		},
		step: func(st int, ev tsEvent) (int, string) {
			if ev.kind == "close" {
				return 1, ""
			}
			if st == 1 {
				return 1, "push after close"
			}
			return st, ""
		}}
	return len(ts.run().errs) > 0
}

// multiplicity of a site: product of the factors of its ancestors.
func siteMultiplicity(c *Ctx, env *polyEnv, path []ast.Node, ids map[ast.Node]int) poly {
	m := pconst(1)
	for i, n := range path {
		switch x := n.(type) {
		case *ast.ForStmt, *ast.RangeStmt:
			m = m.mul(env.tripCount(c.Fset, x.(ast.Stmt), nodeID(ids, n)))
		case *ast.FuncLit:
			m = m.mul(patom(fmt.Sprintf("[fn#%d]", nodeID(ids, n))))
		case *ast.IfStmt:
			// which branch?
			if i+1 < len(path) {
				switch path[i+1] {
				case x.Body:
					m = m.mul(patom(fmt.Sprintf("[if#%d]", nodeID(ids, n))))
				case x.Else:
					m = m.mul(patom(fmt.Sprintf("[else#%d]", nodeID(ids, n))))
				}
			}
		case *ast.CaseClause, *ast.CommClause:
			m = m.mul(patom(fmt.Sprintf("[case#%d]", nodeID(ids, n))))
		}
	}
	return m
}

func nodeID(ids map[ast.Node]int, n ast.Node) int {
	if v, ok := ids[n]; ok {
		return v
	}
	ids[n] = len(ids) + 1
	return ids[n]
}

func runIT2(c *Ctx, s *Sink) {
	for _, h := range itHandles(c) {
		props := itProps(h)
		key := h.key()
		adds := h.eventsOf("Add")
		prods := map[*itBody]bool{}
		for _, b := range h.producers() {
			prods[b] = true
		}
		if len(adds) == 0 && len(prods) == 0 {
			continue // lifecycle without WaitGroup: IT-1 (b)-(d)
		}
		env := newPolyEnv(h.pkg.TypesInfo, h.fd)
		ids := map[ast.Node]int{}
		addTotal := poly{}
		for _, a := range adds {
			if a.body.outer != h.fd {
				s.Undecided(props, key, a.pos(), "Add on "+h.name+" inside a callee")
				continue
			}
			addTotal = addTotal.add(env.of(a.arg).mul(siteMultiplicity(c, env, a.path, ids)), 1)
		}
		goTotal := poly{}
		nlaunch := 0
		for _, l := range h.launches {
			if l.target == nil || !prods[l.target] {
				continue
			}
			nlaunch++
			goTotal = goTotal.add(siteMultiplicity(c, env, l.path, ids), 1)
		}
		// a producer body that is never launched with go
		for b := range prods {
			launched := false
			for _, l := range h.launches {
				if l.target == b {
					launched = true
				}
			}
			if !launched {
				s.Undecided(props, key, b.body.Pos(), "a body calling "+h.name+".Done() is not started by a go statement the analyser can resolve")
			}
		}
		var firstPos token.Pos = h.create.Pos()
		if len(adds) > 0 {
			firstPos = adds[0].pos()
		}
		if addTotal.equal(goTotal) {
			s.Pass(props, key, firstPos, fmt.Sprintf("Add total = producer goroutines = %s (%d Add sites, %d go sites)", addTotal, len(adds), nlaunch))
		} else {
			s.Fail(props, key, firstPos, fmt.Sprintf("amount added to %s's WaitGroup (%s) differs from the number of producer goroutines launched (%s): the closer fires early or never", h.name, addTotal, goTotal))
		}
	}
}

func runIT3(c *Ctx, s *Sink) {
	for _, h := range itHandles(c) {
		props := itProps(h)
		for _, b := range h.producers() {
			key := h.key() + ":producer:" + b.label
			info := b.pkg.TypesInfo
			dones := map[ast.Node]bool{}
			pushes := map[ast.Node]bool{}
			for _, e := range h.eventsIn(b, "Done") {
				dones[e.node] = true
			}
			for _, e := range h.eventsIn(b, "Push") {
				pushes[e.node] = true
			}
			g := buildCFG(info, b.body)
			// state = count(0,1) + 2*deferred
			ts := &typestate{g: g, init: 0, info: info,
				events: func(n ast.Node) []tsEvent {
					var evs []tsEvent
					visitEval(n, func(m ast.Node) {
						switch x := m.(type) {
						case *ast.DeferStmt:
							if dones[x.Call] {
								evs = append(evs, tsEvent{kind: "defer", node: m})
							}
							return
						}
						if dones[m] {
							// not the deferred one
							evs = append(evs, tsEvent{kind: "done", node: m})
						} else if pushes[m] {
							evs = append(evs, tsEvent{kind: "push", node: m})
						}
					})
					return evs
				},
				step: func(st int, ev tsEvent) (int, string) {
					cnt, def := st&1, st>>1
					switch ev.kind {
					case "defer":
						if def == 1 || cnt == 1 {
							return st, "second Done registered on a path"
						}
						return cnt | 2, ""
					case "done":
						if cnt == 1 || def == 1 {
							return st, h.name + ".Done() executed twice on a path (WaitGroup goes negative: panic)"
						}
						return 1 | def<<1, ""
					case "push":
						if cnt == 1 {
							return st, "push on " + h.name + " after Done(): the closer may already have closed the channel"
						}
					}
					return st, ""
				}}
			// deferred Done registered in a DeferStmt: exclude the call itself from "done" events
			deferred := map[ast.Node]bool{}
			ast.Inspect(b.body, func(n ast.Node) bool {
				if _, ok := n.(*ast.FuncLit); ok && n != b.fn {
					return false
				}
				if d, ok := n.(*ast.DeferStmt); ok && dones[d.Call] {
					deferred[d.Call] = true
				}
				return true
			})
			_ = deferred
			res := ts.run()
			if len(res.errs) > 0 {
				e := res.errs[0]
				s.Fail(props, key, e.pos, e.msg)
				continue
			}
			if res.exitStates&(1<<0) != 0 {
				s.Fail(props, key, res.exitPos[0], "a path of the producer reaches its exit without "+h.name+".Done(): the closer waits forever and the stream never ends",
					"entry "+c.Pos(b.body.Pos())+" → exit "+c.Pos(res.exitPos[0]))
				continue
			}
			if res.exitStates == 0 {
				s.Undecided(props, key, b.body.Pos(), "producer has no normal exit")
				continue
			}
			s.Pass(props, key, b.body.Pos(), "exactly one Done on every path, no push after it")
		}
	}
}

func runIT6(c *Ctx, s *Sink) {
	for _, h := range itHandles(c) {
		props := itProps(h)
		key := h.key()
		if h.mapElem {
			s.Pass(props, key, h.create.Pos(), "map element handle: not a captured variable")
			continue
		}
		info := h.pkg.TypesInfo
		// function literals started with go (or bound to a local then started) that use the variable itself
		captured := token.NoPos
		for _, l := range h.launches {
			if l.target == nil || l.target.outer != h.fd {
				continue
			}
			lit, ok := l.target.fn.(*ast.FuncLit)
			if !ok {
				continue
			}
			ast.Inspect(lit.Body, func(n ast.Node) bool {
				if id, ok := n.(*ast.Ident); ok && info.Uses[id] == h.obj && captured == token.NoPos {
					captured = id.Pos()
				}
				return true
			})
		}
		if captured == token.NoPos || len(h.reassign) == 0 {
			s.Pass(props, key, h.create.Pos(), "handle variable is never reassigned while captured by a goroutine")
			continue
		}
		// reassignments inside the capturing goroutine itself before use are the goroutine's own business only if
		// the variable is local to it; here the variable belongs to the creating function.
		r := h.reassign[0]
		s.Fail(props, key, r.Pos(), fmt.Sprintf("variable %s is captured by a goroutine (use at %s) and reassigned here: depending on scheduling the goroutine runs Add/Done/Push/Close on the new iterator (double close, original never closed)", h.name, c.Pos(captured)))
	}
}
