package main

// PL — what is handed to the slice pool is dead (C07, C05).

import (
	"fmt"
	"go/ast"
	"go/token"
	"go/types"
	"strings"

	"golang.org/x/tools/go/packages"
)

func init() {
	register(&Rule{
		ID: "PL", Props: []string{"C07", "C05"}, Min: 4,
		Doc: `the slice pool never holds a live buffer: obiseq.RecycleSlice(p) stores the pointer p itself in a sync.Pool, and GetSlice later hands out *p — whatever p points to at that time.
So at every call RecycleSlice(&X): when X is a struct field (or any variable that outlives the call) the statement that follows assigns nil to X and nothing else does before; when X is a
local variable the call is deferred (or is the last use of X) and X is not returned. A field handed to the pool and then given a new slice (a setter recycling the old value) makes the pool
give that new slice to the next Copy()/Subsequence() as its own buffer: the copy overwrites its source and shares its memory.`,
		Run: runPL,
	})
}

func runPL(c *Ctx, s *Sink) {
	c.EachFunc([]string{"pkg", "cmd"}, func(p *packages.Package, fd *ast.FuncDecl) {
		info := p.TypesInfo
		n := 0
		var inspectBlock func(list []ast.Stmt)
		check := func(call *ast.CallExpr, list []ast.Stmt, idx int, deferred bool) {
			if !isPoolPut(info, call) || len(call.Args) != 1 {
				return
			}
			n++
			key := fmt.Sprintf("%s:recycle#%d", funcName(p, fd), n)
			u, ok := ast.Unparen(call.Args[0]).(*ast.UnaryExpr)
			if !ok || u.Op != token.AND {
				s.Undecided(nil, key, call.Pos(), "the argument is not the address of a variable")
				return
			}
			target := types.ExprString(u.X)
			isNilAssign := func(st ast.Stmt) bool {
				as, ok := st.(*ast.AssignStmt)
				if !ok || as.Tok != token.ASSIGN || len(as.Lhs) != 1 || len(as.Rhs) != 1 {
					return false
				}
				id, ok := ast.Unparen(as.Rhs[0]).(*ast.Ident)
				return ok && id.Name == "nil" && types.ExprString(as.Lhs[0]) == target
			}
			switch x := ast.Unparen(u.X).(type) {
			case *ast.Ident:
				obj := info.ObjectOf(x)
				v, _ := obj.(*types.Var)
				if v == nil || v.Parent() == v.Pkg().Scope() {
					s.Fail(nil, key, call.Pos(), "the address of a package-level variable is pooled")
					return
				}
				returned := false
				ast.Inspect(fd.Body, func(m ast.Node) bool {
					if r, ok := m.(*ast.ReturnStmt); ok {
						for _, e := range r.Results {
							e = ast.Unparen(e)
							if sl, ok := e.(*ast.SliceExpr); ok {
								e = ast.Unparen(sl.X)
							}
							if id, ok := e.(*ast.Ident); ok && info.ObjectOf(id) == obj {
								returned = true
							}
						}
					}
					return true
				})
				usedAfter := false
				if !deferred {
					for _, st := range list[idx+1:] {
						if isNilAssign(st) {
							break
						}
						ast.Inspect(st, func(m ast.Node) bool {
							if id, ok := m.(*ast.Ident); ok && info.Uses[id] == obj {
								usedAfter = true
							}
							return true
						})
					}
				}
				switch {
				case returned:
					s.Fail(nil, key, call.Pos(), "the local buffer "+target+" is handed to the pool and also returned: the caller's slice is given to the next GetSlice()")
				case usedAfter:
					s.Fail(nil, key, call.Pos(), "the local buffer "+target+" is used after it has been handed to the pool")
				default:
					s.Pass(nil, key, call.Pos(), "local buffer, dead once pooled")
				}
			default:
				// a field or an element: the next statement clears it
				if deferred || idx+1 >= len(list) || !isNilAssign(list[idx+1]) {
					s.Fail(nil, key, call.Pos(), "the address of "+target+" is stored in the slice pool but "+target+" is not cleared by the next statement: once it is given a new slice, GetSlice() hands that live slice to the next Copy()/Subsequence() as a free buffer — the copy overwrites its source and shares its memory")
					return
				}
				s.Pass(nil, key, call.Pos(), target+" is cleared right after being pooled: the pool only sees a nil slice there")
			}
		}
		inspectBlock = func(list []ast.Stmt) {
			for i, st := range list {
				switch x := st.(type) {
				case *ast.ExprStmt:
					if call, ok := x.X.(*ast.CallExpr); ok {
						check(call, list, i, false)
					}
				case *ast.DeferStmt:
					check(x.Call, list, i, true)
				}
			}
		}
		ast.Inspect(fd.Body, func(m ast.Node) bool {
			switch x := m.(type) {
			case *ast.BlockStmt:
				inspectBlock(x.List)
			case *ast.CaseClause:
				inspectBlock(x.Body)
			case *ast.CommClause:
				inspectBlock(x.Body)
			}
			return true
		})
		// any RecycleSlice call not in statement position
		total := 0
		ast.Inspect(fd.Body, func(m ast.Node) bool {
			if call, ok := m.(*ast.CallExpr); ok && isPoolPut(info, call) {
				total++
			}
			return true
		})
		if total > n {
			s.Undecided(nil, funcName(p, fd)+":recycle-expr", fd.Pos(), "a RecycleSlice call is not a statement of its own")
		}
	})
}

// isPoolPut: a call to one of obiseq's functions that store their pointer argument in a sync.Pool.
func isPoolPut(info *types.Info, call *ast.CallExpr) bool {
	n := fullName(callee(info, call))
	return strings.HasSuffix(n, "/pkg/obiseq.RecycleSlice") || strings.HasSuffix(n, "/pkg/obiseq.RecycleAnnotation")
}
