package main

// PL — what is handed to the slice pool is dead (C07, C05).

import (
	"fmt"
	"go/ast"
	"go/token"
	"go/types"
	"strings"

	"golang.org/x/tools/go/packages"
)

func init() {
	register(&Rule{
		ID: "PL", Props: []string{"C07", "C05"}, Min: 2,
		Doc: `the slice pool never holds a live buffer: obiseq.RecycleSlice(p) stores the pointer p itself in a sync.Pool, and GetSlice — in any goroutine — later reads *p, whatever p points to at that
time. So at every call RecycleSlice(&X) / RecycleAnnotation(&X), X is a local variable, the call is deferred (or is the last use of X) and X is not returned. The address of a struct field or of an
element is never pooled: given a new slice later (a setter recycling the old value) the field makes the pool hand that live slice to the next Copy()/Subsequence() as its own buffer — the copy
overwrites its source; and cleared right after the call (what Recycle() did) it is written by its owner while the next GetSlice() of another goroutine reads it: go test -race reports
Recycle() against GetSlice() for goroutines that copy and recycle their OWN sequences only, obipairing on 20000 pairs reports 45 of them.`,
		Run: runPL,
	})
}

func runPL(c *Ctx, s *Sink) {
	c.EachFunc([]string{"pkg", "cmd"}, func(p *packages.Package, fd *ast.FuncDecl) {
		info := p.TypesInfo
		n := 0
		var inspectBlock func(list []ast.Stmt)
		check := func(call *ast.CallExpr, list []ast.Stmt, idx int, deferred bool) {
			if !isPoolPut(info, call) || len(call.Args) != 1 {
				return
			}
			n++
			key := fmt.Sprintf("%s:recycle#%d", funcName(p, fd), n)
			u, ok := ast.Unparen(call.Args[0]).(*ast.UnaryExpr)
			if !ok || u.Op != token.AND {
				s.Undecided(nil, key, call.Pos(), "the argument is not the address of a variable")
				return
			}
			target := types.ExprString(u.X)
			isNilAssign := func(st ast.Stmt) bool {
				as, ok := st.(*ast.AssignStmt)
				if !ok || as.Tok != token.ASSIGN || len(as.Lhs) != 1 || len(as.Rhs) != 1 {
					return false
				}
				id, ok := ast.Unparen(as.Rhs[0]).(*ast.Ident)
				return ok && id.Name == "nil" && types.ExprString(as.Lhs[0]) == target
			}
			switch x := ast.Unparen(u.X).(type) {
			case *ast.Ident:
				obj := info.ObjectOf(x)
				v, _ := obj.(*types.Var)
				if v == nil || v.Parent() == v.Pkg().Scope() {
					s.Fail(nil, key, call.Pos(), "the address of a package-level variable is pooled")
					return
				}
				returned := false
				ast.Inspect(fd.Body, func(m ast.Node) bool {
					if r, ok := m.(*ast.ReturnStmt); ok {
						for _, e := range r.Results {
							e = ast.Unparen(e)
							if sl, ok := e.(*ast.SliceExpr); ok {
								e = ast.Unparen(sl.X)
							}
							if id, ok := e.(*ast.Ident); ok && info.ObjectOf(id) == obj {
								returned = true
							}
						}
					}
					return true
				})
				usedAfter := false
				if !deferred {
					for _, st := range list[idx+1:] {
						if isNilAssign(st) {
							break
						}
						ast.Inspect(st, func(m ast.Node) bool {
							if id, ok := m.(*ast.Ident); ok && info.Uses[id] == obj {
								usedAfter = true
							}
							return true
						})
					}
				}
				switch {
				case returned:
					s.Fail(nil, key, call.Pos(), "the local buffer "+target+" is handed to the pool and also returned: the caller's slice is given to the next GetSlice()")
				case usedAfter:
					s.Fail(nil, key, call.Pos(), "the local buffer "+target+" is used after it has been handed to the pool")
				default:
					s.Pass(nil, key, call.Pos(), "local buffer, dead once pooled")
				}
			default:
				// a field or an element: it outlives the call, and other goroutines get its address from the pool
				s.Fail(nil, key, call.Pos(), "the address of "+target+" is stored in the slice pool: the next GetSlice()/GetAnnotation() — in any goroutine — reads that field while its owner still writes it (even the nil stored right after: go test -race, Recycle() against GetSlice()), and once the field is given a new slice the pool hands that live slice to the next Copy()/Subsequence() as a free buffer — the copy overwrites its source and shares its memory")
			}
		}
		inspectBlock = func(list []ast.Stmt) {
			for i, st := range list {
				switch x := st.(type) {
				case *ast.ExprStmt:
					if call, ok := x.X.(*ast.CallExpr); ok {
						check(call, list, i, false)
					}
				case *ast.DeferStmt:
					check(x.Call, list, i, true)
				}
			}
		}
		ast.Inspect(fd.Body, func(m ast.Node) bool {
			switch x := m.(type) {
			case *ast.BlockStmt:
				inspectBlock(x.List)
			case *ast.CaseClause:
				inspectBlock(x.Body)
			case *ast.CommClause:
				inspectBlock(x.Body)
			}
			return true
		})
		// any RecycleSlice call not in statement position
		total := 0
		ast.Inspect(fd.Body, func(m ast.Node) bool {
			if call, ok := m.(*ast.CallExpr); ok && isPoolPut(info, call) {
				total++
			}
			return true
		})
		if total > n {
			s.Undecided(nil, funcName(p, fd)+":recycle-expr", fd.Pos(), "a RecycleSlice call is not a statement of its own")
		}
	})
}

// isPoolPut: a call to one of obiseq's functions that store their pointer argument in a sync.Pool.
func isPoolPut(info *types.Info, call *ast.CallExpr) bool {
	n := fullName(callee(info, call))
	return strings.HasSuffix(n, "/pkg/obiseq.RecycleSlice") || strings.HasSuffix(n, "/pkg/obiseq.RecycleAnnotation")
}
