package main

// Armed-rule replay (thorough tier): seeded defects kept as unified diffs in
// /verif/seeds/<Cnn>/*.patch are applied in memory (go/packages Overlay; /repo
// is never modified) and the rules must report the construct named in the
// seed's header.  A seed that no longer applies is reported as stale and
// skipped: it never fails a check, because a behaviour-preserving refactoring
// of /repo may legitimately invalidate a textual patch.

import (
	"bufio"
	"encoding/json"
	"fmt"
	"os"
	"os/exec"
	"path/filepath"
	"sort"
	"strings"
)

type seedResult struct {
	name string
	ok   bool
	msg  string
}

type seedExpect struct {
	Property string `json:"property"`
	Rule     string `json:"rule"`
	Key      string `json:"key"`
}

type seedSpec struct {
	path   string // patch file
	name   string
	prop   string
	expect []seedExpect
	files  []string
}

// parseSeed reads <dir>/patch.diff and <dir>/meta.json ({"property":…, "expect":[{rule,key[,property]}]}).
func parseSeed(dir string) (*seedSpec, error) {
	s := &seedSpec{path: filepath.Join(dir, "patch.diff"), name: filepath.Base(filepath.Dir(dir)) + "/" + filepath.Base(dir)}
	data, err := os.ReadFile(filepath.Join(dir, "meta.json"))
	if err != nil {
		return nil, err
	}
	var meta struct {
		Property string       `json:"property"`
		Expect   []seedExpect `json:"expect"`
	}
	if err := json.Unmarshal(data, &meta); err != nil {
		return nil, err
	}
	s.prop = meta.Property
	for _, e := range meta.Expect {
		if e.Property == "" {
			e.Property = meta.Property
		}
		s.expect = append(s.expect, e)
	}
	f, err := os.Open(s.path)
	if err != nil {
		return nil, err
	}
	defer f.Close()
	sc := bufio.NewScanner(f)
	sc.Buffer(make([]byte, 1<<20), 1<<20)
	for sc.Scan() {
		l := sc.Text()
		if strings.HasPrefix(l, "+++ ") {
			p := strings.Fields(l)[1]
			s.files = append(s.files, strings.TrimPrefix(p, "b/"))
		}
	}
	return s, nil
}

func (s *seedSpec) expectsFor(prop string) []seedExpect {
	var out []seedExpect
	for _, e := range s.expect {
		if e.Property == prop {
			out = append(out, e)
		}
	}
	return out
}

// overlayFor applies the patch to copies of the touched files and returns the
// overlay map, or an error when the patch does not apply.
func overlayFor(repo string, s *seedSpec) (map[string][]byte, error) {
	tmp, err := os.MkdirTemp("", "obiverif-seed")
	if err != nil {
		return nil, err
	}
	defer os.RemoveAll(tmp)
	for _, f := range s.files {
		if !strings.HasSuffix(f, ".go") {
			return nil, fmt.Errorf("touches %s: only Go sources can be overlaid in memory", f)
		}
	}
	for _, f := range s.files {
		src, err := os.ReadFile(filepath.Join(repo, f))
		if err != nil {
			return nil, err
		}
		dst := filepath.Join(tmp, f)
		os.MkdirAll(filepath.Dir(dst), 0o755)
		if err := os.WriteFile(dst, src, 0o644); err != nil {
			return nil, err
		}
	}
	abs, _ := filepath.Abs(s.path)
	cmd := exec.Command("patch", "-p1", "--no-backup-if-mismatch", "-s", "-F0", "-i", abs)
	cmd.Dir = tmp
	if out, err := cmd.CombinedOutput(); err != nil {
		return nil, fmt.Errorf("patch does not apply: %s", strings.TrimSpace(string(out)))
	}
	ov := map[string][]byte{}
	for _, f := range s.files {
		data, err := os.ReadFile(filepath.Join(tmp, f))
		if err != nil {
			return nil, err
		}
		ov[filepath.Join(repo, f)] = data
	}
	return ov, nil
}

// listSeeds returns the seed directories (seeded/* from independent agents, seeds/* reverted fixes)
// that expect a report for one of the properties.
func listSeeds(props []string) []string {
	var out []string
	for _, base := range []string{"seeded", "seeds"} {
		dirs, _ := filepath.Glob(filepath.Join(verifDir, base, "*"))
		for _, d := range dirs {
			s, err := parseSeed(d)
			if err != nil {
				continue
			}
			for _, p := range props {
				if len(s.expectsFor(p)) > 0 {
					out = append(out, d)
					break
				}
			}
		}
	}
	sort.Strings(out)
	return out
}

// seedChild runs in a sub-process: load with overlay, run the rules of the
// property, print the non-pass obligations as JSON.
func seedChild(repo, patch string) int {
	s, err := parseSeed(patch)
	if err != nil {
		fmt.Println(`{"error":"` + err.Error() + `"}`)
		return 0
	}
	ov, err := overlayFor(repo, s)
	if err != nil {
		out, _ := json.Marshal(map[string]any{"stale": err.Error()})
		fmt.Println(string(out))
		return 0
	}
	c, err := Load(repo, ov)
	if err != nil {
		out, _ := json.Marshal(map[string]any{"error": "seeded tree does not load: " + err.Error()})
		fmt.Println(string(out))
		return 0
	}
	c.Tier = "quick"
	want := map[string]bool{}
	for _, e := range s.expect {
		want[e.Property] = true
	}
	res := runRules(c, want)
	var bad []*Ob
	for _, o := range res.obs {
		if o.v != Pass {
			bad = append(bad, o)
		}
	}
	out, _ := json.Marshal(map[string]any{"obs": bad})
	fmt.Println(string(out))
	return 0
}

func replayOne(repo, dir string) (*seedSpec, []*Ob, string) {
	s, err := parseSeed(dir)
	if err != nil {
		return nil, nil, err.Error()
	}
	exe, _ := os.Executable()
	cmd := exec.Command(exe, "seedchild", dir, "--repo", repo, "--verif", verifDir)
	out, err := cmd.Output()
	if err != nil {
		return s, nil, fmt.Sprintf("sub-process failed: %v", err)
	}
	var r struct {
		Stale string `json:"stale"`
		Error string `json:"error"`
		Obs   []*Ob  `json:"obs"`
	}
	lines := strings.Split(strings.TrimSpace(string(out)), "\n")
	if err := json.Unmarshal([]byte(lines[len(lines)-1]), &r); err != nil {
		return s, nil, "bad sub-process output"
	}
	if r.Stale != "" {
		return s, nil, "STALE (skipped): " + r.Stale
	}
	if r.Error != "" {
		return s, nil, r.Error
	}
	return s, r.Obs, ""
}

// replaySeedsFor replays the seeds of the given properties, a few in
// parallel (each sub-process loads the program: ~1 GB).
func replaySeedsFor(repo string, props []string, verbose bool) map[string][]seedResult {
	seeds := listSeeds(props)
	type rr struct {
		s   *seedSpec
		obs []*Ob
		msg string
	}
	res := make([]rr, len(seeds))
	sem := make(chan struct{}, 6)
	done := make(chan int)
	for i, d := range seeds {
		go func(i int, d string) {
			sem <- struct{}{}
			s, obs, msg := replayOne(repo, d)
			res[i] = rr{s, obs, msg}
			<-sem
			done <- i
		}(i, d)
	}
	for range seeds {
		<-done
	}
	out := map[string][]seedResult{}
	for i, d := range seeds {
		r := res[i]
		name := filepath.Base(filepath.Dir(d)) + "/" + filepath.Base(d)
		for _, p := range props {
			if r.s == nil {
				continue
			}
			exp := r.s.expectsFor(p)
			if len(exp) == 0 {
				continue
			}
			sr := seedResult{name: name, ok: true, msg: "detected"}
			if r.msg != "" {
				sr.ok = strings.HasPrefix(r.msg, "STALE")
				sr.msg = r.msg
			} else {
				for _, e := range exp {
					found := false
					for _, o := range r.obs {
						if o.Rule == e.Rule && o.Key == e.Key && o.Verdict != "pass" && has(o.Props, p) {
							found = true
						}
					}
					if !found {
						sr.ok = false
						sr.msg = fmt.Sprintf("MISSED: expected rule=%s key=%s", e.Rule, e.Key)
					}
				}
			}
			out[p] = append(out[p], sr)
			if verbose || !sr.ok {
				fmt.Printf("  seed %s [%s]: %s\n", name, p, sr.msg)
			}
		}
	}
	return out
}

func runSeeds(repo string, props []string, verbose bool) int {
	if len(props) == 0 {
		for _, p := range loadProps() {
			props = append(props, p.ID)
		}
	}
	r := replaySeedsFor(repo, props, true)
	exit := 0
	n, ok := 0, 0
	for _, rs := range r {
		for _, s := range rs {
			n++
			if s.ok {
				ok++
			} else {
				exit = 1
			}
		}
	}
	fmt.Printf("seeds=%d ok=%d\n", n, ok)
	return exit
}
