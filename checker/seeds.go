package main

// Armed-rule replay (thorough tier): seeded defects kept as unified diffs in
// /verif/seeds/<Cnn>/*.patch are applied in memory (go/packages Overlay; /repo
// is never modified) and the rules must report the construct named in the
// seed's header.  A seed that no longer applies is reported as stale and
// skipped: it never fails a check, because a behaviour-preserving refactoring
// of /repo may legitimately invalidate a textual patch.

import (
	"bufio"
	"encoding/json"
	"fmt"
	"os"
	"os/exec"
	"path/filepath"
	"sort"
	"strings"
)

type seedResult struct {
	name string
	ok   bool
	msg  string
}

type seedSpec struct {
	path   string
	prop   string
	expect []struct{ rule, key string }
	files  []string
}

func parseSeed(path string) (*seedSpec, error) {
	f, err := os.Open(path)
	if err != nil {
		return nil, err
	}
	defer f.Close()
	s := &seedSpec{path: path, prop: filepath.Base(filepath.Dir(path))}
	sc := bufio.NewScanner(f)
	sc.Buffer(make([]byte, 1<<20), 1<<20)
	for sc.Scan() {
		l := sc.Text()
		if strings.HasPrefix(l, "# expect:") {
			var rule, key string
			rest := strings.TrimSpace(strings.TrimPrefix(l, "# expect:"))
			if i := strings.Index(rest, " key="); i >= 0 {
				rule = strings.TrimPrefix(strings.TrimSpace(rest[:i]), "rule=")
				key = strings.TrimSpace(rest[i+5:])
			}
			s.expect = append(s.expect, struct{ rule, key string }{rule, key})
		}
		if strings.HasPrefix(l, "+++ ") {
			p := strings.Fields(l)[1]
			p = strings.TrimPrefix(p, "b/")
			s.files = append(s.files, p)
		}
	}
	if len(s.expect) == 0 {
		return nil, fmt.Errorf("%s: no '# expect: rule=R key=K' header", path)
	}
	return s, nil
}

// overlayFor applies the patch to copies of the touched files and returns the
// overlay map, or an error when the patch does not apply.
func overlayFor(repo string, s *seedSpec) (map[string][]byte, error) {
	tmp, err := os.MkdirTemp("", "obiverif-seed")
	if err != nil {
		return nil, err
	}
	defer os.RemoveAll(tmp)
	for _, f := range s.files {
		src, err := os.ReadFile(filepath.Join(repo, f))
		if err != nil {
			return nil, err
		}
		dst := filepath.Join(tmp, f)
		os.MkdirAll(filepath.Dir(dst), 0o755)
		if err := os.WriteFile(dst, src, 0o644); err != nil {
			return nil, err
		}
	}
	abs, _ := filepath.Abs(s.path)
	cmd := exec.Command("patch", "-p1", "--no-backup-if-mismatch", "-s", "-F0", "-i", abs)
	cmd.Dir = tmp
	if out, err := cmd.CombinedOutput(); err != nil {
		return nil, fmt.Errorf("patch does not apply: %s", strings.TrimSpace(string(out)))
	}
	ov := map[string][]byte{}
	for _, f := range s.files {
		data, err := os.ReadFile(filepath.Join(tmp, f))
		if err != nil {
			return nil, err
		}
		ov[filepath.Join(repo, f)] = data
	}
	return ov, nil
}

func listSeeds(props []string) []string {
	var out []string
	for _, p := range props {
		m, _ := filepath.Glob(filepath.Join(verifDir, "seeds", p, "*.patch"))
		out = append(out, m...)
	}
	sort.Strings(out)
	return out
}

// seedChild runs in a sub-process: load with overlay, run the rules of the
// property, print the non-pass obligations as JSON.
func seedChild(repo, patch string) int {
	s, err := parseSeed(patch)
	if err != nil {
		fmt.Println(`{"error":"` + err.Error() + `"}`)
		return 0
	}
	ov, err := overlayFor(repo, s)
	if err != nil {
		out, _ := json.Marshal(map[string]any{"stale": err.Error()})
		fmt.Println(string(out))
		return 0
	}
	c, err := Load(repo, ov)
	if err != nil {
		out, _ := json.Marshal(map[string]any{"error": "seeded tree does not load: " + err.Error()})
		fmt.Println(string(out))
		return 0
	}
	c.Tier = "quick"
	res := runRules(c, map[string]bool{s.prop: true})
	var bad []*Ob
	for _, o := range res.obs {
		if o.v != Pass && has(o.Props, s.prop) {
			bad = append(bad, o)
		}
	}
	out, _ := json.Marshal(map[string]any{"obs": bad})
	fmt.Println(string(out))
	return 0
}

func replayOne(repo, patch string) seedResult {
	name := filepath.Base(filepath.Dir(patch)) + "/" + filepath.Base(patch)
	s, err := parseSeed(patch)
	if err != nil {
		return seedResult{name, false, err.Error()}
	}
	exe, _ := os.Executable()
	cmd := exec.Command(exe, "seedchild", patch, "--repo", repo, "--verif", verifDir)
	out, err := cmd.Output()
	if err != nil {
		return seedResult{name, false, fmt.Sprintf("sub-process failed: %v", err)}
	}
	var r struct {
		Stale string `json:"stale"`
		Error string `json:"error"`
		Obs   []*Ob  `json:"obs"`
	}
	lines := strings.Split(strings.TrimSpace(string(out)), "\n")
	if err := json.Unmarshal([]byte(lines[len(lines)-1]), &r); err != nil {
		return seedResult{name, false, "bad sub-process output"}
	}
	if r.Stale != "" {
		return seedResult{name, true, "STALE (skipped): " + r.Stale}
	}
	if r.Error != "" {
		return seedResult{name, false, r.Error}
	}
	for _, e := range s.expect {
		found := false
		for _, o := range r.Obs {
			if o.Rule == e.rule && o.Key == e.key && o.Verdict == "VIOLATION" {
				found = true
			}
		}
		if !found {
			var got []string
			for _, o := range r.Obs {
				got = append(got, o.Rule+" "+o.Key+" ["+o.Verdict+"]")
			}
			return seedResult{name, false, fmt.Sprintf("MISSED: expected rule=%s key=%s; reported: %v", e.rule, e.key, got)}
		}
	}
	return seedResult{name, true, "detected"}
}

// replaySeedsFor replays the seeds of the given properties, a few in
// parallel (each sub-process loads the program: ~1 GB).
func replaySeedsFor(repo string, props []string, verbose bool) map[string][]seedResult {
	seeds := listSeeds(props)
	res := make([]seedResult, len(seeds))
	sem := make(chan struct{}, 6)
	done := make(chan int)
	for i, p := range seeds {
		go func(i int, p string) {
			sem <- struct{}{}
			res[i] = replayOne(repo, p)
			<-sem
			done <- i
		}(i, p)
	}
	for range seeds {
		<-done
	}
	out := map[string][]seedResult{}
	for i, p := range seeds {
		prop := filepath.Base(filepath.Dir(p))
		out[prop] = append(out[prop], res[i])
		if verbose || !res[i].ok {
			fmt.Printf("  seed %s: %s\n", res[i].name, res[i].msg)
		}
	}
	return out
}

func runSeeds(repo string, props []string, verbose bool) int {
	if len(props) == 0 {
		for _, p := range loadProps() {
			props = append(props, p.ID)
		}
	}
	r := replaySeedsFor(repo, props, true)
	exit := 0
	n, ok := 0, 0
	for _, rs := range r {
		for _, s := range rs {
			n++
			if s.ok {
				ok++
			} else {
				exit = 1
			}
		}
	}
	fmt.Printf("seeds=%d ok=%d\n", n, ok)
	return exit
}
