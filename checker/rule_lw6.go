package main

// LW6 — direction discipline of the per-limb shift primitives (C20).
//
// A limb primitive <Dir>Shift64(n, carryIn) returns (value, carry).  Whatever
// the case analysis on n looks like, three facts hold for a correct one:
//   - a data shift whose amount grows with n (amount = n + c) moves the bits
//     in the direction of the function; one whose amount shrinks with n
//     (amount = c - n) is the spill into the neighbouring limb and moves the
//     bits the opposite way;
//   - the value result never contains a spill shift;
//   - if the carry-in is masked, the mask keeps the low n bits for a left
//     shift ((1<<n)-1) and the high n bits for a right shift (^((1<<(W-n))-1)).

import (
	"fmt"
	"go/ast"
	"go/constant"
	"go/token"
	"go/types"
	"strings"

	"golang.org/x/tools/go/packages"
)

func init() {
	register(&Rule{
		ID: "LW6", Props: []string{"C20"}, Min: 2,
		Doc: `limb shift primitives (LeftShift64/RightShift64): every shift of a data word by an amount n+c is in the direction of the function, every shift by c-n (the spill into the
neighbour limb) in the opposite direction; the value result holds no spill shift; a mask applied to the carry-in keeps the low n bits (left) / high n bits (right).`,
		Run: runLW6,
	})
}

// affineIn returns (a, b, ok) with e == a*n + b.
func affineIn(info *types.Info, e ast.Expr, n types.Object) (int64, int64, bool) {
	e = ast.Unparen(e)
	if tv, ok := info.Types[e]; ok && tv.Value != nil {
		if v, exact := constant.Int64Val(constant.ToInt(tv.Value)); exact {
			return 0, v, true
		}
	}
	switch x := e.(type) {
	case *ast.Ident:
		if info.ObjectOf(x) == n {
			return 1, 0, true
		}
	case *ast.CallExpr:
		if tv, ok := info.Types[x.Fun]; ok && tv.IsType() && len(x.Args) == 1 {
			return affineIn(info, x.Args[0], n)
		}
	case *ast.BinaryExpr:
		a1, b1, ok1 := affineIn(info, x.X, n)
		a2, b2, ok2 := affineIn(info, x.Y, n)
		if ok1 && ok2 {
			switch x.Op {
			case token.ADD:
				return a1 + a2, b1 + b2, true
			case token.SUB:
				return a1 - a2, b1 - b2, true
			case token.MUL:
				if a1 == 0 {
					return a2 * b1, b2 * b1, true
				}
				if a2 == 0 {
					return a1 * b2, b1 * b2, true
				}
			}
		}
	}
	return 0, 0, false
}

func runLW6(c *Ctx, s *Sink) {
	c.EachFunc([]string{"pkg/obifp"}, func(p *packages.Package, fd *ast.FuncDecl) {
		if fd.Recv == nil {
			return
		}
		name := fd.Name.Name
		if name != "LeftShift64" && name != "RightShift64" {
			return
		}
		info := p.TypesInfo
		left := name == "LeftShift64"
		key := funcName(p, fd) + ":direction"
		params := fd.Type.Params.List
		var nObj, cinObj types.Object
		idx := 0
		for _, f := range params {
			for _, id := range f.Names {
				if idx == 0 {
					nObj = info.ObjectOf(id)
				}
				if idx == 1 {
					cinObj = info.ObjectOf(id)
				}
				idx++
			}
		}
		if nObj == nil {
			s.Undecided(nil, key, fd.Pos(), "no shift amount parameter")
			return
		}
		var errs []string
		nshift := 0
		dirName := map[bool]string{true: "<<", false: ">>"}
		checkShift := func(be *ast.BinaryExpr, inValue bool) {
			if tv, ok := info.Types[be.X]; ok && tv.Value != nil {
				return // mask construction
			}
			a, _, ok := affineIn(info, be.Y, nObj)
			if !ok || (a != 1 && a != -1) {
				if ok && a == 0 {
					return
				}
				errs = append(errs, fmt.Sprintf("%s: shift amount %s is not of the form n+c or c-n", c.Pos(be.Pos()), types.ExprString(be.Y)))
				return
			}
			nshift++
			isLeft := be.Op == token.SHL
			want := left
			if a == -1 {
				want = !left
			}
			if isLeft != want {
				what := "a shift by n+c moves bits in the direction of the function"
				if a == -1 {
					what = "the spill shift by c-n moves bits against the direction of the function"
				}
				errs = append(errs, fmt.Sprintf("%s: %s uses %s where %s is required (%s)", c.Pos(be.Pos()), types.ExprString(be), dirName[isLeft], dirName[want], what))
			}
			if inValue && a == -1 {
				errs = append(errs, fmt.Sprintf("%s: the value result contains the spill shift %s, which belongs to the carry", c.Pos(be.Pos()), types.ExprString(be)))
			}
		}
		var walk func(e ast.Expr, inValue bool)
		walk = func(e ast.Expr, inValue bool) {
			ast.Inspect(e, func(n ast.Node) bool {
				be, ok := n.(*ast.BinaryExpr)
				if !ok {
					return true
				}
				if be.Op == token.SHL || be.Op == token.SHR {
					checkShift(be, inValue)
				}
				if be.Op == token.AND && cinObj != nil {
					var m ast.Expr
					if id, ok := ast.Unparen(be.X).(*ast.Ident); ok && info.ObjectOf(id) == cinObj {
						m = be.Y
					} else if id, ok := ast.Unparen(be.Y).(*ast.Ident); ok && info.ObjectOf(id) == cinObj {
						m = be.X
					}
					if m != nil {
						m = ast.Unparen(m)
						compl := false
						if u, ok := m.(*ast.UnaryExpr); ok && u.Op == token.XOR {
							compl = true
							m = ast.Unparen(u.X)
						}
						if sub, ok := m.(*ast.BinaryExpr); ok && sub.Op == token.SUB {
							if sh, ok := ast.Unparen(sub.X).(*ast.BinaryExpr); ok && sh.Op == token.SHL {
								if a, _, ok := affineIn(info, sh.Y, nObj); ok && (a == 1 || a == -1) {
									good := (left && !compl && a == 1) || (!left && compl && a == -1)
									if !good {
										errs = append(errs, fmt.Sprintf("%s: the carry-in mask %s does not keep the %s n bits", c.Pos(be.Pos()), types.ExprString(be.Y), map[bool]string{true: "low", false: "high"}[left]))
									}
								}
							}
						}
					}
				}
				return true
			})
		}
		ast.Inspect(fd.Body, func(n ast.Node) bool {
			if _, ok := n.(*ast.FuncLit); ok {
				return false
			}
			if r, ok := n.(*ast.ReturnStmt); ok {
				for i, e := range r.Results {
					walk(e, i == 0 && len(r.Results) == 2)
				}
				return false
			}
			if as, ok := n.(*ast.AssignStmt); ok {
				for _, e := range as.Rhs {
					walk(e, false)
				}
			}
			return true
		})
		switch {
		case len(errs) > 0:
			s.Fail(nil, key, fd.Pos(), strings.Join(errs, " | "))
		case nshift == 0:
			s.Undecided(nil, key, fd.Pos(), "no data shift found in the primitive")
		default:
			s.Pass(nil, key, fd.Pos(), fmt.Sprintf("%d data shifts: n+c shifts go %s, spill shifts go %s, none in the value result", nshift, dirName[left], dirName[!left]))
		}
	})
}
