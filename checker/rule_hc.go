package main

// HC — the presence test of an option with several values is true as soon as one of them is given (C16).
// TA — the setters of a record do not assert the type of a value the user computed (C16).
// FT — a float attribute is matched under the text the record shows, not under fmt's %g (C16).

import (
	"fmt"
	"go/ast"
	"go/token"
	"go/types"
	"strings"

	"golang.org/x/tools/go/packages"
)

func init() {
	register(&Rule{
		ID: "HC", Props: []string{"C16"}, Min: 1,
		Doc: `"act on each record as the options say": an option holding several values (--cut from:to) is read by an accessor that returns the neutral tuple (0, 0) when the option is absent; its
presence test CLIHas… (a function of the option packages of obigrep/obiannotate/obidistribute returning bool, whose result is built from the values of ONE call of such an accessor) must hold for every
tuple other than the neutral one: a disjunction of 'x != 0' over all the values. Written as a conjunction, the option given with one neutral bound (--cut 0:10, --cut 5:0) is accepted and silently
ignored: every record leaves unchanged, exit 0.`,
		Run: func(c *Ctx, s *Sink) {
			c.EachFunc([]string{"pkg/obitools/obigrep", "pkg/obitools/obiannotate", "pkg/obitools/obidistribute"}, func(p *packages.Package, fd *ast.FuncDecl) {
				info := p.TypesInfo
				if fd.Type.Results == nil || len(fd.Type.Results.List) != 1 || fd.Recv != nil {
					return
				}
				if t := info.TypeOf(fd.Type.Results.List[0].Type); t == nil || t.String() != "bool" {
					return
				}
				// x, y := accessor()  with two or more results, all integers
				var vars []types.Object
				for _, st := range fd.Body.List {
					as, ok := st.(*ast.AssignStmt)
					if !ok || len(as.Lhs) < 2 || len(as.Rhs) != 1 {
						continue
					}
					if _, isCall := ast.Unparen(as.Rhs[0]).(*ast.CallExpr); !isCall {
						continue
					}
					for _, l := range as.Lhs {
						if id, ok := l.(*ast.Ident); ok && id.Name != "_" {
							if o := info.ObjectOf(id); o != nil {
								if b, ok := o.Type().Underlying().(*types.Basic); ok && b.Info()&types.IsInteger != 0 {
									vars = append(vars, o)
								}
							}
						}
					}
				}
				if len(vars) < 2 {
					return
				}
				key := funcName(p, fd) + ":present-when-any-value-is-given"
				var ret *ast.ReturnStmt
				for _, st := range fd.Body.List {
					if r, ok := st.(*ast.ReturnStmt); ok && len(r.Results) == 1 {
						ret = r
					}
				}
				if ret == nil {
					s.Undecided(nil, key, fd.Pos(), "no single return of the presence test found")
					return
				}
				// the test: leaves 'v != 0' (or 0 != v) over the variables, joined by || only
				tested := map[types.Object]bool{}
				shape := "" // "or", "and", "mixed", "other"
				var walk func(e ast.Expr, parent token.Token)
				walk = func(e ast.Expr, parent token.Token) {
					e = ast.Unparen(e)
					b, ok := e.(*ast.BinaryExpr)
					if !ok {
						shape = "other"
						return
					}
					switch b.Op {
					case token.LOR, token.LAND:
						op := "or"
						if b.Op == token.LAND {
							op = "and"
						}
						if shape == "" {
							shape = op
						} else if shape != op {
							shape = "mixed"
						}
						walk(b.X, b.Op)
						walk(b.Y, b.Op)
					case token.NEQ:
						for i, side := range []ast.Expr{b.X, b.Y} {
							other := []ast.Expr{b.Y, b.X}[i]
							if id, ok := ast.Unparen(side).(*ast.Ident); ok {
								if v, isC := constInt(info, other); isC && v == 0 {
									tested[info.ObjectOf(id)] = true
									return
								}
							}
						}
						shape = "other"
					default:
						shape = "other"
					}
				}
				walk(ret.Results[0], token.ILLEGAL)
				all := true
				for _, v := range vars {
					if !tested[v] {
						all = false
					}
				}
				switch {
				case shape == "other" || shape == "mixed" || !all:
					s.Undecided(nil, key, ret.Pos(), "the presence test is not a combination of 'v != 0' over all the values of the option ("+types.ExprString(ret.Results[0])+")")
				case shape == "and":
					s.Fail(nil, key, ret.Pos(), "the option counts as given only when ALL its values differ from 0 ("+types.ExprString(ret.Results[0])+"): with one neutral bound (--cut 0:10, --cut 5:0) it is accepted and silently ignored, every record leaves unchanged")
				default:
					s.Pass(nil, key, ret.Pos(), "present as soon as one value differs from the neutral one")
				}
			})
		},
	})

	register(&Rule{
		ID: "TA", Props: []string{"C16"}, Min: 1,
		Doc: `"obiannotate applies the requested edits": the value handed to BioSequence.SetAttribute comes from the user — the result of a -S expression, the value of the attribute renamed by -R — and has
whatever type that gives. In the methods of *BioSequence that take a parameter of an interface type (the setters), that parameter is never the operand of a single-result type assertion v.(T): it panics
when the type differs (-S 'id=sequence.Len()', -S 'sequence="acgt"', -R id=count: interface conversion panic, exit 2, nothing written). A type switch or the two-result form decides.`,
		Run: func(c *Ctx, s *Sink) {
			c.EachFunc([]string{"pkg/obiseq"}, func(p *packages.Package, fd *ast.FuncDecl) {
				if rel(p.PkgPath) != "pkg/obiseq" || fd.Recv == nil || len(fd.Recv.List) != 1 || fd.Type.Params == nil {
					return
				}
				info := p.TypesInfo
				rt := info.TypeOf(fd.Recv.List[0].Type)
				if pt, ok := rt.(*types.Pointer); ok {
					rt = pt.Elem()
				}
				if !strings.HasSuffix(namedTypeName(rt), ".BioSequence") || !strings.HasPrefix(fd.Name.Name, "Set") {
					return
				}
				var params []types.Object
				for _, prm := range flattenParams(fd.Type.Params) {
					if prm == nil {
						continue
					}
					if o := info.ObjectOf(prm); o != nil {
						if _, isIface := o.Type().Underlying().(*types.Interface); isIface {
							params = append(params, o)
						}
					}
				}
				if len(params) == 0 {
					return
				}
				key := funcName(p, fd) + ":no-unchecked-assertion-on-the-value"
				// single-result assertions: those that are not the right side of a two-value assignment nor the tag of a type switch
				checked := map[*ast.TypeAssertExpr]bool{}
				ast.Inspect(fd.Body, func(n ast.Node) bool {
					switch x := n.(type) {
					case *ast.AssignStmt:
						if len(x.Lhs) == 2 && len(x.Rhs) == 1 {
							if ta, ok := ast.Unparen(x.Rhs[0]).(*ast.TypeAssertExpr); ok {
								checked[ta] = true
							}
						}
					case *ast.ValueSpec:
						if len(x.Names) == 2 && len(x.Values) == 1 {
							if ta, ok := ast.Unparen(x.Values[0]).(*ast.TypeAssertExpr); ok {
								checked[ta] = true
							}
						}
					}
					return true
				})
				var bad *ast.TypeAssertExpr
				ast.Inspect(fd.Body, func(n ast.Node) bool {
					ta, ok := n.(*ast.TypeAssertExpr)
					if !ok || ta.Type == nil || checked[ta] {
						return true
					}
					o := rootObj(info, ta.X)
					for _, prm := range params {
						if o == prm && bad == nil {
							bad = ta
						}
					}
					return true
				})
				if bad != nil {
					s.Fail(nil, key, bad.Pos(), "the value is asserted to be a "+types.ExprString(bad.Type)+" without a test ("+types.ExprString(bad)+"): a -S expression or a renamed attribute of another type panics the command (interface conversion, exit 2, no record written)")
				} else {
					s.Pass(nil, key, fd.Pos(), "the type of the value is decided by a type switch or a two-result assertion")
				}
			})
		},
	})

	register(&Rule{
		ID: "FT", Props: []string{"C16"}, Min: 1,
		Doc: `"obigrep keeps exactly the records that satisfy every requested criterion (… attribute patterns …)": the pattern of -a KEY=PATTERN is tested against the value as the record shows it. In the
functions of pkg/obiseq that build a SequencePredicate, a value of interface type printed through fmt (Sprint, Sprintf %v) to be matched lies in a type switch that has sent the floats elsewhere (a
clause for float64): fmt prints a float64 with %g — 1e-05, 1.2345675e+06, 2.759204e+06 — where the header reads 0.00001, 1234567.5, 2759204: -a 'pval=^0\.' misses the record, -v keeps it, the
discarded file receives it.`,
		Run: func(c *Ctx, s *Sink) {
			c.EachFunc([]string{"pkg/obiseq"}, func(p *packages.Package, fd *ast.FuncDecl) {
				if rel(p.PkgPath) != "pkg/obiseq" || fd.Type.Results == nil || len(fd.Type.Results.List) != 1 {
					return
				}
				info := p.TypesInfo
				if !strings.HasSuffix(namedTypeName(info.TypeOf(fd.Type.Results.List[0].Type)), "SequencePredicate") {
					return
				}
				n := 0
				var stack []ast.Node
				ast.Inspect(fd.Body, func(nd ast.Node) bool {
					if nd == nil {
						stack = stack[:len(stack)-1]
						return true
					}
					stack = append(stack, nd)
					call, ok := nd.(*ast.CallExpr)
					if !ok {
						return true
					}
					fn := fullName(callee(info, call))
					if fn != "fmt.Sprint" && fn != "fmt.Sprintf" && fn != "fmt.Sprintln" {
						return true
					}
					var arg ast.Expr
					for _, a := range call.Args {
						if t := info.TypeOf(a); t != nil {
							if _, isIface := t.Underlying().(*types.Interface); isIface {
								arg = a
							}
						}
					}
					if arg == nil {
						return true
					}
					n++
					key := fmt.Sprintf("%s:text#%d:floats-not-printed-by-fmt", funcName(p, fd), n)
					floatsElsewhere := false
					for k := len(stack) - 2; k >= 0; k-- {
						ts, ok := stack[k].(*ast.TypeSwitchStmt)
						if !ok {
							continue
						}
						// the clause holding the call is not the float one; another clause names float64
						for _, cl := range ts.Body.List {
							cc := cl.(*ast.CaseClause)
							holds := cc.Pos() <= call.Pos() && call.End() <= cc.End()
							for _, t := range cc.List {
								if tt := info.TypeOf(t); tt != nil && tt.String() == "float64" && !holds {
									floatsElsewhere = true
								}
							}
						}
					}
					// inside the clause of the floats: fine when that clause first asks a number formatter for the text (fmt only takes what has no such text: NaN, Inf)
					if !floatsElsewhere {
						for k := len(stack) - 2; k >= 0; k-- {
							cc, ok := stack[k].(*ast.CaseClause)
							if !ok {
								continue
							}
							isFloat := false
							for _, t := range cc.List {
								if tt := info.TypeOf(t); tt != nil && tt.String() == "float64" {
									isFloat = true
								}
							}
							if !isFloat {
								continue
							}
							ast.Inspect(cc, func(m ast.Node) bool {
								if hc, ok := m.(*ast.CallExpr); ok && hc.Pos() < call.Pos() {
									switch name := fullName(callee(info, hc)); {
									case strings.HasSuffix(name, ".JsonMarshal"), strings.HasSuffix(name, "json.Marshal"), name == "strconv.FormatFloat", name == "strconv.AppendFloat", strings.HasSuffix(name, ".CategoryText"):
										floatsElsewhere = true
									}
								}
								return true
							})
						}
					}
					if floatsElsewhere {
						s.Pass(nil, key, call.Pos(), "a clause of the type switch takes the floats before fmt prints the value")
					} else {
						s.Fail(nil, key, call.Pos(), "a value of any type is printed by fmt to be matched against the user's pattern: a float64 comes out in %g (1e-05, 1.2345675e+06) where the record reads 0.00001, 1234567.5 — obigrep -a misses the record, -v and --save-discarded route it the wrong way")
					}
					return true
				})
			})
		},
	})
}
