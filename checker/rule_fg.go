package main

// FG — fragmenting long templates keeps the set of amplicons (C11).

import (
	"go/ast"
	"go/types"
	"strings"
)

func init() {
	register(&Rule{
		ID: "FG", Props: []string{"C11"}, Min: 4,
		Doc: `obipcr --fragmented cuts long templates into overlapping fragments amplified separately. In pkg/obitools/obipcr.CLIPCR (1) the overlap handed to obiiter.IFragments is, by linear
arithmetic over the option getters, at least max length + length of both primers (+ twice the flank length on the path where flanks are requested): an amplicon lying across the end of a fragment
is then entirely inside the next one — with max + max(lf,lr) + min(lf,lr)/2 an insert of the maximal length straddling a boundary was lost, and flanks were clipped at the fragment edge; (2) the
fragmenting branch refuses the circular option (a branch testing it ends the program): OptionCircular would apply to each fragment and pair a site at its end with a site at its start (a 40 nt
chimera from sites 39480 bp apart); (3) something removes the amplicons reported twice because they lie entirely inside an overlap: the worker's output is not returned as it is; (4) the
fragmentation progresses: the loop of IFragments advances by length − overlap, which is ≥ 1 either because IFragments ends the program otherwise before building its worker (a guard whose negation
entails it) or because the call site proves fragment length ≥ overlap + 1 on every path (linear arithmetic, max() forked) — with -L 5 and two 250 nt primers the overlap (505) exceeded the fragment
length (500): the loop walked backwards and Subsequence was called with a negative position.`,
		Run: runFG,
	})
}

func runFG(c *Ctx, s *Sink) {
	fd, p := c.FindFunc("pkg/obitools/obipcr", "CLIPCR")
	base := "pkg/obitools/obipcr.CLIPCR"
	if fd == nil {
		s.Undecided(nil, base, 0, "function not found")
		return
	}
	info := p.TypesInfo
	var frag *ast.CallExpr
	var fragIf *ast.IfStmt
	var stack []ast.Node
	ast.Inspect(fd.Body, func(n ast.Node) bool {
		if n == nil {
			stack = stack[:len(stack)-1]
			return true
		}
		stack = append(stack, n)
		if call, ok := n.(*ast.CallExpr); ok && strings.HasSuffix(fullName(callee(info, call)), "/pkg/obiiter.IFragments") && len(call.Args) >= 3 {
			frag = call
			for k := len(stack) - 1; k >= 0; k-- {
				if ifs, ok := stack[k].(*ast.IfStmt); ok && fragIf == nil {
					fragIf = ifs
				}
			}
		}
		return true
	})
	if frag == nil || fragIf == nil {
		s.Undecided(nil, base, fd.Pos(), "no conditional call of IFragments")
		return
	}
	decl := func(f *types.Func) (*ast.FuncDecl, *types.Info) {
		d, dp := c.DeclOf(f)
		if d == nil {
			return nil, nil
		}
		return d, dp.TypesInfo
	}
	// (1) overlap
	key := base + ":overlap-covers-amplicon"
	env := &linEnv{info: info, vars: map[types.Object]linForm{}, defs: map[types.Object][]ast.Expr{}, atoms: map[string]bool{}, lens: map[string]bool{}, elems: map[string]linForm{}, decl: decl}
	nok, nbad := 0, 0
	why := ""
	// the package-level option variables the getters return: find the getters by what they are (called in this function)
	var maxLen, fwd, rev, extExpr ast.Expr
	extSeen := false
	ast.Inspect(fd.Body, func(n ast.Node) bool {
		call, ok := n.(*ast.CallExpr)
		if !ok {
			return true
		}
		f := callee(info, call)
		if f == nil {
			return true
		}
		switch {
		case strings.HasSuffix(f.Name(), "OptionMaxLength") && len(call.Args) == 1:
			maxLen = call.Args[0]
		case strings.HasSuffix(f.Name(), "OptionForwardPrimer") && len(call.Args) >= 1:
			fwd = call.Args[0]
		case strings.HasSuffix(f.Name(), "OptionReversePrimer") && len(call.Args) >= 1:
			rev = call.Args[0]
		case strings.HasSuffix(f.Name(), "OptionWithExtension") && len(call.Args) >= 1:
			extExpr = call.Args[0]
		}
		return true
	})
	if maxLen == nil || fwd == nil || rev == nil {
		s.Undecided(nil, key, frag.Pos(), "the expressions giving the maximal length and the two primers to the PCR options were not found")
	} else {
		visit := func(pth linPath, st ast.Stmt) {
			found := false
			ast.Inspect(st, func(m ast.Node) bool {
				if m == ast.Node(frag) {
					found = true
				}
				return true
			})
			if !found {
				return
			}
			pth.env.cur = pth.sys
			ov, ok := pth.env.form(frag.Args[2], 0)
			ml, ok2 := pth.env.form(maxLen, 0)
			if !ok || !ok2 {
				nbad++
				why = "the overlap " + types.ExprString(frag.Args[2]) + " is not a linear expression of the options"
				return
			}
			lf := lfAtom("|" + types.ExprString(fwd) + "|")
			lr := lfAtom("|" + types.ExprString(rev) + "|")
			pth.env.atoms["|"+types.ExprString(fwd)+"|"], pth.env.lens["|"+types.ExprString(fwd)+"|"] = true, true
			pth.env.atoms["|"+types.ExprString(rev)+"|"], pth.env.lens["|"+types.ExprString(rev)+"|"] = true, true
			need := ml.add(lf, 1).add(lr, 1)
			// the flanks are two: whatever the overlap adds for the extension (--delta), it adds it twice
			if extExpr != nil {
				if ef, ok := pth.env.form(extExpr, 0); ok && len(ef.co) == 1 && ef.c == 0 {
					for a, k := range ef.co {
						if k == 1 {
							if c := ov.co[a]; c > 0 && c < 2 {
								nbad++
								why = "the overlap counts the flanking region (" + types.ExprString(extExpr) + ") once: an amplicon has two flanks — with --delta d an amplicon of maximal length starting in the d-1 last positions before the next fragment lies entirely in no fragment (lost with --only-complete-flanking, clipped without)"
								return
							}
							if c := ov.co[a]; c >= 2 {
								extSeen = true
							}
						}
					}
				}
			}
			if pth.known().entails(linLE(need, ov)) {
				nok++
			} else {
				nbad++
				why = "overlap = " + ov.String() + ", needed >= " + need.String()
			}
		}
		linWalk([]linPath{{env: env}}, fragIf.Body.List, visit)
		switch {
		case nbad > 0:
			s.Fail(nil, key, frag.Pos(), "two consecutive fragments do not share the longest amplicon with its two primers ("+why+"): an amplicon whose insert has the maximal length and that lies across the end of a fragment is in neither fragment entirely and is not reported (100500 bp template, -L 100: the 100 nt amplicon at 19756 is lost); flanks are clipped at the fragment edge")
		case nok == 0:
			s.Undecided(nil, key, frag.Pos(), "the call of IFragments is not reached by the path enumeration")
		case extExpr != nil && !extSeen:
			s.Fail(nil, key, frag.Pos(), "the flanking regions given to the PCR ("+types.ExprString(extExpr)+") are on no path part of what two consecutive fragments share: with --delta the amplicons near the end of a fragment lose their flank or, with --only-complete-flanking, are lost")
		default:
			s.Pass(nil, key, frag.Pos(), "overlap >= max length + both primers on every path")
		}
	}
	// (2) circular refused
	key = base + ":fragmented-excludes-circular"
	refused := false
	ast.Inspect(fragIf.Body, func(n ast.Node) bool {
		ifs, ok := n.(*ast.IfStmt)
		if !ok {
			return true
		}
		if !strings.Contains(strings.ToLower(types.ExprString(ifs.Cond)), "circular") {
			return true
		}
		ast.Inspect(ifs.Body, func(m ast.Node) bool {
			if call, ok := m.(*ast.CallExpr); ok {
				if fn := callee(info, call); fn != nil && (strings.HasPrefix(fn.Name(), "Fatal") || strings.HasPrefix(fn.Name(), "Panic")) {
					refused = true
				}
			}
			return true
		})
		return true
	})
	if refused {
		s.Pass(nil, key, fragIf.Pos(), "the fragmenting branch ends the program when the template is declared circular")
	} else {
		s.Fail(nil, key, fragIf.Pos(), "fragments of a circular template are amplified as circular sequences themselves: a forward site at the end of a fragment pairs with a reverse site at its beginning (a 40 nt chimera from sites 39480 bp apart)")
	}
	// (3) duplicates
	key = base + ":overlap-duplicates-removed"
	direct := false
	ast.Inspect(fd.Body, func(n ast.Node) bool {
		if r, ok := n.(*ast.ReturnStmt); ok && len(r.Results) >= 1 {
			if call, ok := ast.Unparen(r.Results[0]).(*ast.CallExpr); ok {
				if f := callee(info, call); f != nil && strings.Contains(f.Name(), "SliceWorker") {
					direct = true
				}
			}
		}
		return true
	})
	if direct {
		s.Fail(nil, key, fragIf.Pos(), "the output of the PCR worker is returned as it is: an amplicon lying entirely inside the overlap of two fragments is found in both and reported twice, under two identifiers (tpl_sub[1..10000]_sub[9901..9950] and tpl_sub[9861..19860]_sub[41..90])")
	} else {
		s.Pass(nil, key, fragIf.Pos(), "the worker's output goes through a further stage before being returned")
	}
	// (4) progress
	key = base + ":fragments-progress"
	siteOK, siteN := true, 0
	linWalk([]linPath{{env: &linEnv{info: info, vars: map[types.Object]linForm{}, defs: map[types.Object][]ast.Expr{}, atoms: map[string]bool{}, lens: map[string]bool{}, elems: map[string]linForm{}, decl: decl}}}, fragIf.Body.List, func(pth linPath, st ast.Stmt) {
		found := false
		ast.Inspect(st, func(m ast.Node) bool {
			if m == ast.Node(frag) {
				found = true
			}
			return true
		})
		if !found {
			return
		}
		siteN++
		pth.env.cur = pth.sys
		ln, ok1 := pth.env.form(frag.Args[1], 0)
		ov, ok2 := pth.env.form(frag.Args[2], 0)
		if !ok1 || !ok2 || !pth.known().entails(linLE(ov.add(lfConst(1), 1), ln)) {
			siteOK = false
		}
	})
	siteOK = siteOK && siteN > 0
	guardOK := fgGuard(c)
	switch {
	case guardOK && siteOK:
		s.Pass(nil, key, frag.Pos(), "fragment length >= overlap + 1 at the call, and IFragments refuses a step below 1")
	case guardOK:
		s.Pass(nil, key, frag.Pos(), "IFragments ends the program when length - overlap < 1")
	case siteOK:
		s.Pass(nil, key, frag.Pos(), "fragment length >= overlap + 1 on every path to the call")
	default:
		s.Fail(nil, key, frag.Pos(), "nothing bounds the overlap below the fragment length: with -L 5 and two 250 nt primers the overlap is 505 for fragments of 500, the loop of IFragments advances by -5 and Subsequence is called with a negative position (panic), or by 0 and never ends")
	}
}

// fgGuard: in obiiter.IFragments, before the first statement holding a function literal, the paths that do not end in
// Panic*/Fatal* entail length - overlap >= 1 (second and third parameters).
func fgGuard(c *Ctx) bool {
	fd, p := c.FindFunc("pkg/obiiter", "IFragments")
	if fd == nil {
		return false
	}
	info := p.TypesInfo
	ps := flattenParams(fd.Type.Params)
	if len(ps) < 3 {
		return false
	}
	env := &linEnv{info: info, vars: map[types.Object]linForm{}, defs: map[types.Object][]ast.Expr{}, atoms: map[string]bool{}, lens: map[string]bool{}, elems: map[string]linForm{}}
	paths := []linPath{{env: env}}
	terminates := func(b *ast.BlockStmt) bool {
		if len(b.List) == 0 {
			return false
		}
		es, ok := b.List[len(b.List)-1].(*ast.ExprStmt)
		if !ok {
			return false
		}
		call, ok := es.X.(*ast.CallExpr)
		if !ok {
			return false
		}
		if id, ok := call.Fun.(*ast.Ident); ok && id.Name == "panic" {
			return true
		}
		f := callee(info, call)
		return f != nil && (strings.HasPrefix(f.Name(), "Fatal") || strings.HasPrefix(f.Name(), "Panic"))
	}
	for _, st := range fd.Body.List {
		hasLit := false
		ast.Inspect(st, func(n ast.Node) bool {
			if _, ok := n.(*ast.FuncLit); ok {
				hasLit = true
			}
			return true
		})
		if hasLit {
			break
		}
		if ifs, ok := st.(*ast.IfStmt); ok && ifs.Else == nil && ifs.Init == nil && terminates(ifs.Body) {
			var out []linPath
			for _, pth := range paths {
				pth.env.cur = pth.sys
				for _, cs := range pth.env.cond(ifs.Cond, true) {
					np := linPath{env: pth.env.clone(), sys: append(append(linSys{}, pth.sys...), cs...)}
					if !np.known().infeasible() {
						out = append(out, np)
					}
				}
			}
			paths = out
			continue
		}
		paths = linWalk(paths, []ast.Stmt{st}, func(linPath, ast.Stmt) {})
	}
	if len(paths) == 0 {
		return false
	}
	for _, pth := range paths {
		pth.env.cur = pth.sys
		ln, ok1 := pth.env.form(ps[1], 0)
		ov, ok2 := pth.env.form(ps[2], 0)
		if !ok1 || !ok2 || !pth.known().entails(linLE(ov.add(lfConst(1), 1), ln)) {
			return false
		}
	}
	return true
}
