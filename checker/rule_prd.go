package main

// PRD — paired reads stay paired, or the command says it cannot (C16, C03).

import (
	"go/ast"
	"go/token"
	"go/types"
	"strings"

	"golang.org/x/tools/go/packages"
)

func init() {
	register(&Rule{
		ID: "PRD", Props: []string{"C16", "C03"}, Min: 5,
		Doc: `"with paired inputs both mates are kept or dropped together and stay at the same rank of the two output files", whatever the way the forward reads are given and whatever the command.
(1) In obiconvert.CLIReadBioSequences the call that pairs the iterator with the mate file (PairTo) is not nested in a branch testing how many input files there are: placed in the 'exactly one
file' branch, --paired-with was silently ignored for stdin and for several files, and obigrep --paired-mode reverse then selected on the forward read and dropped the mates. (2) In
obiconvert.CLIWriteBioSequences the branch writing to the standard output refuses a paired iterator (a test of IsPaired() that ends the program): the mates were written nowhere. (3) In
(BioSequenceSlice).PairedWith the mate of each record is tested against nil in a branch that ends the program before it is stored: a command whose worker creates records (--cut, barcode
extraction) handed nil pointers to the writer of the mates (SIGSEGV after the forward file had been written). (4) In obiannotate.CLIAnnotationPipeline the worker goes through a function that
reads the mate of a record (PairedWith) and pairs the results again (PairTo): the edits were applied to the forward reads only, the two mates no longer had the same identifier. (5) The main
function of obimultiplex, which builds its records from single reads, refuses the paired option before reading. (6) In obiannotate.RenameAttributeWorker the renamings are not applied one after
the other (no call of RenameAttribute in a loop): -R kk=k -R k=count gave kk=<count> and lost k, while -R a=k -R k=count — the same request — gave a=<k>, k=<count>.`,
		Run: runPRD,
	})
}

func runPRD(c *Ctx, s *Sink) {
	endsIn := func(info *types.Info, b *ast.BlockStmt) bool {
		ends := false
		ast.Inspect(b, func(n ast.Node) bool {
			if call, ok := n.(*ast.CallExpr); ok && linEndsProgram(info, call) {
				ends = true
			}
			return true
		})
		return ends
	}
	// (1)
	if fd, p := c.FindFunc("pkg/obitools/obiconvert", "CLIReadBioSequences"); fd != nil {
		info := p.TypesInfo
		key := "pkg/obitools/obiconvert.CLIReadBioSequences:mates-paired-in-every-branch"
		var stack []ast.Node
		found, nested := false, ""
		ast.Inspect(fd.Body, func(n ast.Node) bool {
			if n == nil {
				stack = stack[:len(stack)-1]
				return true
			}
			stack = append(stack, n)
			call, ok := n.(*ast.CallExpr)
			if !ok || !strings.HasSuffix(fullName(callee(info, call)), "IBioSequence).PairTo") {
				return true
			}
			found = true
			for k := len(stack) - 2; k >= 0; k-- {
				ifs, ok := stack[k].(*ast.IfStmt)
				if !ok {
					continue
				}
				if txt := types.ExprString(ifs.Cond); strings.Contains(txt, "len(") {
					nested = txt
				}
			}
			return true
		})
		switch {
		case !found:
			s.Fail(nil, key, fd.Pos(), "the iterator is never paired with the mate file")
		case nested != "":
			s.Fail(nil, key, fd.Pos(), "the mate file is opened and paired only in a branch depending on the number of inputs ("+nested+"): --paired-with is silently ignored when the forward reads come from stdin or from several files — obigrep --paired-with r.fastq --paired-mode reverse -a k=B < f.fastq selects p2 p4 p6 p8 on the forward reads, writes no _R1/_R2 and drops the mates, where the same command on the file selects the pairs p3 p6")
		default:
			s.Pass(nil, key, fd.Pos(), "the mates are paired whatever the number of inputs")
		}
	} else {
		s.Undecided(nil, "pkg/obitools/obiconvert.CLIReadBioSequences", 0, "function not found")
	}
	// (2)
	if fd, p := c.FindFunc("pkg/obitools/obiconvert", "CLIWriteBioSequences"); fd != nil {
		info := p.TypesInfo
		key := "pkg/obitools/obiconvert.CLIWriteBioSequences:paired-to-stdout-refused"
		ok := false
		var stack []ast.Node
		ast.Inspect(fd.Body, func(n ast.Node) bool {
			if n == nil {
				stack = stack[:len(stack)-1]
				return true
			}
			stack = append(stack, n)
			call, isCall := n.(*ast.CallExpr)
			if !isCall {
				return true
			}
			f := callee(info, call)
			if f == nil || !strings.HasSuffix(f.Name(), "ToStdout") {
				return true
			}
			// in the block holding this call (or an enclosing one, up to the branch), an if on IsPaired that ends the program
			for k := len(stack) - 2; k >= 0; k-- {
				if b, isB := stack[k].(*ast.BlockStmt); isB {
					for _, st := range b.List {
						if ifs, isIf := st.(*ast.IfStmt); isIf && st.End() < call.Pos() && strings.Contains(types.ExprString(ifs.Cond), "IsPaired()") && endsIn(info, ifs.Body) {
							ok = true
						}
					}
				}
			}
			return true
		})
		if ok {
			s.Pass(nil, key, fd.Pos(), "a paired iterator is refused before anything is written on the standard output")
		} else {
			s.Fail(nil, key, fd.Pos(), "a paired iterator is written to the standard output as if it were not: only the forward reads are printed and the mates of the kept pairs are written nowhere, without a message (obigrep --paired-with r.fastq -a k=B f.fastq)")
		}
	}
	// (3)
	if fd, p := c.FindFunc("pkg/obiseq", "(*BioSequenceSlice).PairedWith"); fd != nil {
		info := p.TypesInfo
		key := "pkg/obiseq.(*BioSequenceSlice).PairedWith:missing-mate-refused"
		ok := false
		ast.Inspect(fd.Body, func(n ast.Node) bool {
			if ifs, isIf := n.(*ast.IfStmt); isIf && strings.Contains(types.ExprString(ifs.Cond), "== nil") && endsIn(info, ifs.Body) {
				ok = true
			}
			return true
		})
		if ok {
			s.Pass(nil, key, fd.Pos(), "a record without mate ends the program with a message")
		} else {
			s.Fail(nil, key, fd.Pos(), "the mates are collected without any test: a record created by a worker (obiannotate --cut, obimultiplex) has none, and the slice of nil pointers is handed to the writer of the _R2 file — nil pointer dereference in WriteSequence after the _R1 file has been written (pc_R1.fastq=336 bytes, pc_R2.fastq=0)")
		}
	}
	// (4)
	if fd, p := c.FindFunc("pkg/obitools/obiannotate", "CLIAnnotationPipeline"); fd != nil {
		info := p.TypesInfo
		key := "pkg/obitools/obiannotate.CLIAnnotationPipeline:mates-edited"
		ok := false
		ast.Inspect(fd.Body, func(n ast.Node) bool {
			call, isCall := n.(*ast.CallExpr)
			if !isCall {
				return true
			}
			f := callee(info, call)
			if f == nil {
				return true
			}
			if d, dp := c.DeclOf(f); d != nil && d.Body != nil {
				reads, pairs := false, false
				ast.Inspect(d.Body, func(m ast.Node) bool {
					if c2, isC := m.(*ast.CallExpr); isC {
						if g := callee(dp.TypesInfo, c2); g != nil {
							switch g.Name() {
							case "PairedWith":
								reads = true
							case "PairTo":
								pairs = true
							}
						}
					}
					return true
				})
				if reads && pairs {
					ok = true
				}
			}
			return true
		})
		if ok {
			s.Pass(nil, key, fd.Pos(), "the worker is applied to a record and to its mate, and the results are paired again")
		} else {
			s.Fail(nil, key, fd.Pos(), "the edits are applied to the records of the batches, i.e. to the forward reads only: obiannotate --paired-with r.fastq --set-identifier 'sequence.Id() + \"_x\"' --delete-tag k --length writes @p1_x {\"seq_length\":13} in _R1 and @p1 {\"k\":\"A\"} in _R2 — the mates are not edited and no longer carry the same identifier")
		}
	}
	// (5)
	c.EachFunc([]string{"cmd/obitools/obimultiplex"}, func(p *packages.Package, fd *ast.FuncDecl) {
		if fd.Name.Name != "main" {
			return
		}
		info := p.TypesInfo
		key := "cmd/obitools/obimultiplex.main:paired-option-refused"
		ok := false
		for _, st := range fd.Body.List {
			if ifs, isIf := st.(*ast.IfStmt); isIf && strings.Contains(types.ExprString(ifs.Cond), "Paired") && endsIn(info, ifs.Body) {
				ok = true
			}
		}
		if ok {
			s.Pass(nil, key, fd.Pos(), "--paired-with is refused before anything is read")
		} else {
			s.Fail(nil, key, fd.Pos(), "obimultiplex accepts --paired-with (its option set includes the input options) but builds its records from single reads: the iterator stays marked as paired, the new records have no mate and the writer of the _R2 file crashes (mult_R1.fastq=6402 bytes, mult_R2.fastq=0, exit status 2)")
		}
	})
	// (6)
	if fd, p := c.FindFunc("pkg/obitools/obiannotate", "RenameAttributeWorker"); fd != nil {
		info := p.TypesInfo
		key := "pkg/obitools/obiannotate.RenameAttributeWorker:renamings-applied-at-once"
		bad := false
		ast.Inspect(fd.Body, func(n ast.Node) bool {
			var body *ast.BlockStmt
			switch x := n.(type) {
			case *ast.RangeStmt:
				body = x.Body
			case *ast.ForStmt:
				body = x.Body
			}
			if body == nil {
				return true
			}
			// one iteration that both creates and removes an attribute is a renaming applied on its own
			sets, deletes := false, false
			ast.Inspect(body, func(m ast.Node) bool {
				if call, isC := m.(*ast.CallExpr); isC {
					if f := callee(info, call); f != nil {
						switch f.Name() {
						case "RenameAttribute":
							bad = true
						case "SetAttribute":
							sets = true
						case "DeleteAttribute":
							deletes = true
						}
					}
				}
				return true
			})
			if sets && deletes {
				bad = true
			}
			return true
		})
		// read all, remove all, then write all: a new name may be the old name of another renaming
		var lastGet, firstDel, lastDel, firstSet token.Pos
		ast.Inspect(fd.Body, func(n ast.Node) bool {
			if call, isC := n.(*ast.CallExpr); isC {
				if f := callee(info, call); f != nil {
					switch f.Name() {
					case "GetAttribute":
						if call.Pos() > lastGet {
							lastGet = call.Pos()
						}
					case "DeleteAttribute":
						if !firstDel.IsValid() {
							firstDel = call.Pos()
						}
						if call.Pos() > lastDel {
							lastDel = call.Pos()
						}
					case "SetAttribute":
						if !firstSet.IsValid() {
							firstSet = call.Pos()
						}
					}
				}
			}
			return true
		})
		if !bad && firstSet.IsValid() && lastDel.IsValid() && firstSet < lastDel {
			s.Fail(nil, key, firstSet, "the new names are written before the old names are removed: when a new name is the old name of another renaming (-R kk=k -R k=count, -R forward=reverse -R reverse=forward) the attribute just written is deleted — {k:5,kk:1} comes out as {kk:1}")
			return
		}
		if !bad && lastGet.IsValid() && (firstDel.IsValid() && firstDel < lastGet || firstSet.IsValid() && firstSet < lastGet) {
			s.Fail(nil, key, lastGet, "an attribute is removed or written before all the old values are read: a chained renaming reads the value another one has just written or finds nothing")
			return
		}
		if bad {
			s.Fail(nil, key, fd.Pos(), "the renamings are applied one after the other (in the alphabetical order of the new names): when a new name is the old name of another renaming the result depends on their spelling — -R kk=k -R k=count gives kk=<count> and loses the value of k; -R a=k -R k=count, the same request, gives a=<k>, k=<count>")
		} else {
			s.Pass(nil, key, fd.Pos(), "the values are read before any attribute is renamed")
		}
	}
}
