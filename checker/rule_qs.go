package main

// QS — quality offset provenance (C02): the offset added by the writer and
// subtracted by the reader come from the option accessors, through whatever
// chain of parameters, never from a literal.

import (
	"fmt"
	"go/ast"
	"go/token"
	"go/types"
	"strings"

	"golang.org/x/tools/go/packages"
)

func init() {
	register(&Rule{
		ID: "QS", Props: []string{"C02", "C04"}, Min: 3,
		Doc: `quality offset provenance: the value added to a quality in BioSequence.QualitiesString originates (def-use through locals, parameters and all static call
sites, conversions allowed) from obioptions.OutputQualityShift() and the quality is clamped to the constant 93 before the addition; the value subtracted in
_storeSequenceQuality originates from obioptions.InputQualityShift() at every call chain; and the reader checks that quality and sequence lengths agree with a fatal branch.
A literal 33 on either side breaks the round trip for every other input/output offset.`,
		Run: runQS,
	})
}

type originTracer struct {
	c     *Ctx
	depth int
}

// origins returns the leaf expressions an identifier's value comes from, as strings
// ("call:<fullname>", "const:<v>", "other:<expr>").
func (t *originTracer) origins(p *packages.Package, fd *ast.FuncDecl, e ast.Expr, depth int) []string {
	info := p.TypesInfo
	e = ast.Unparen(e)
	if depth > 6 {
		return []string{"other:depth"}
	}
	if v, ok := constInt(info, e); ok {
		return []string{fmt.Sprintf("const:%d", v)}
	}
	switch x := e.(type) {
	case *ast.CallExpr:
		if tv, ok := info.Types[x.Fun]; ok && tv.IsType() && len(x.Args) == 1 {
			return t.origins(p, fd, x.Args[0], depth)
		}
		if fn := callee(info, x); fn != nil {
			return []string{"call:" + fullName(fn)}
		}
	case *ast.Ident:
		o := info.ObjectOf(x)
		// parameter of fd (or of an enclosing literal of fd)?
		if idx, owner := paramIndex(info, fd, o); idx >= 0 {
			if owner != nil {
				// parameter of a function literal: trace through the calls of the literal is out of reach
				return []string{"other:literal-parameter " + x.Name}
			}
			return t.callerArgs(p, fd, idx, depth+1)
		}
		// captured or local variable with definitions in fd
		defs := collectDefs(info, fd)
		if ds := defs[o]; len(ds) > 0 {
			var out []string
			for _, d := range ds {
				if d == nil {
					out = append(out, "other:multi-value")
					continue
				}
				out = append(out, t.origins(p, fd, d, depth+1)...)
			}
			return out
		}
	}
	return []string{"other:" + types.ExprString(e)}
}

func paramIndex(info *types.Info, fd *ast.FuncDecl, o types.Object) (int, *ast.FuncLit) {
	for i, prm := range flattenParams(fd.Type.Params) {
		if prm != nil && info.ObjectOf(prm) == o {
			return i, nil
		}
	}
	var lit *ast.FuncLit
	idx := -1
	ast.Inspect(fd.Body, func(n ast.Node) bool {
		if l, ok := n.(*ast.FuncLit); ok {
			for i, prm := range flattenParams(l.Type.Params) {
				if prm != nil && info.ObjectOf(prm) == o {
					lit, idx = l, i
				}
			}
		}
		return true
	})
	return idx, lit
}

// callerArgs: origins of the idx-th argument at every static call site of fd in the program.
func (t *originTracer) callerArgs(p *packages.Package, fd *ast.FuncDecl, idx int, depth int) []string {
	self, _ := p.TypesInfo.Defs[fd.Name].(*types.Func)
	var out []string
	n := 0
	t.c.EachFunc(nil, func(cp *packages.Package, cfd *ast.FuncDecl) {
		ast.Inspect(cfd.Body, func(m ast.Node) bool {
			call, ok := m.(*ast.CallExpr)
			if !ok {
				return true
			}
			if fn := callee(cp.TypesInfo, call); fn != nil && fn.Origin() == self && idx < len(call.Args) {
				n++
				out = append(out, t.origins(cp, cfd, call.Args[idx], depth)...)
			}
			return true
		})
	})
	if n == 0 {
		return []string{"other:no-call-site"}
	}
	return out
}

func allFrom(origins []string, want string) (bool, string) {
	for _, o := range origins {
		if o != "call:"+want {
			return false, o
		}
	}
	return len(origins) > 0, ""
}

func runQS(c *Ctx, s *Sink) {
	t := &originTracer{c: c}
	// writer
	fd, p := c.FindFunc("pkg/obiseq", "(*BioSequence).QualitiesString")
	key := "pkg/obiseq.(*BioSequence).QualitiesString"
	if fd == nil {
		s.Undecided(nil, key, 0, "function not found")
	} else {
		info := p.TypesInfo
		var add *ast.BinaryExpr
		clamp := false
		clamped := map[types.Object]bool{} // the variables that hold a clamped score
		minCalls := map[*ast.CallExpr]bool{}
		ast.Inspect(fd.Body, func(n ast.Node) bool {
			switch x := n.(type) {
			case *ast.BinaryExpr:
				if x.Op == token.ADD {
					if tv, ok := info.Types[x]; ok && tv.Type != nil && strings.Contains(tv.Type.String(), "int8") || ok && tv.Type.String() == "byte" {
						add = x
					}
				}
			case *ast.CallExpr:
				// min(q, 93)
				if id, ok := x.Fun.(*ast.Ident); ok && id.Name == "min" && len(x.Args) == 2 && (isConstInt(info, x.Args[0], 93) || isConstInt(info, x.Args[1], 93)) {
					if _, isBuiltin := info.Uses[id].(*types.Builtin); isBuiltin {
						clamp = true
						minCalls[x] = true
					}
				}
			case *ast.IfStmt:
				if b, ok := ast.Unparen(x.Cond).(*ast.BinaryExpr); ok && b.Op == token.GTR && isConstInt(info, b.Y, 93) {
					for _, st := range x.Body.List {
						if as, ok := st.(*ast.AssignStmt); ok && len(as.Rhs) == 1 && isConstInt(info, as.Rhs[0], 93) {
							clamp = true
							if o := rootObj(info, as.Lhs[0]); o != nil {
								if _, isIdent := ast.Unparen(as.Lhs[0]).(*ast.Ident); isIdent {
									clamped[o] = true
								} else if types.ExprString(as.Lhs[0]) == types.ExprString(b.X) {
									clamped[o] = true // the element of the slice is clamped in place
								}
							}
						}
					}
				}
			}
			return true
		})
		switch {
		case add == nil:
			s.Undecided(nil, key, fd.Pos(), "no quality + offset addition found")
		case !clamp:
			s.Fail(nil, key, fd.Pos(), "qualities are not clamped to 93 before the offset is added: values above 93 leave the printable range and cannot be read back")
		case !qsUsesClamped(info, fd, add, clamped, minCalls):
			s.Fail(nil, key, add.Pos(), "the clamp to 93 is computed but neither operand of the quality + offset addition is the clamped value ("+types.ExprString(add)+"): scores above 93 are written as bytes beyond '~', the line is not a FASTQ quality line and cannot be read back")
		default:
			acc := modPath + "/pkg/obioptions.OutputQualityShift"
			okX, _ := allFrom(t.origins(p, fd, add.X, 0), acc)
			okY, _ := allFrom(t.origins(p, fd, add.Y, 0), acc)
			if okX || okY {
				s.Pass(nil, key, add.Pos(), "offset added comes from obioptions.OutputQualityShift(); clamp to 93 precedes")
			} else {
				s.Fail(nil, key, add.Pos(), fmt.Sprintf("neither operand of the quality + offset addition comes from obioptions.OutputQualityShift() only (origins: %v + %v): output written with another offset option cannot be read back", t.origins(p, fd, add.X, 0), t.origins(p, fd, add.Y, 0)))
			}
		}
	}
	// reader
	fd, p = c.FindFunc("pkg/obiformats", "_storeSequenceQuality")
	key = "pkg/obiformats._storeSequenceQuality"
	if fd == nil {
		s.Undecided(nil, key, 0, "function not found")
		return
	}
	info := p.TypesInfo
	var sub ast.Expr
	lenCheck := false
	var qstack []ast.Node
	ast.Inspect(fd.Body, func(n ast.Node) bool {
		if n == nil {
			qstack = qstack[:len(qstack)-1]
			return true
		}
		qstack = append(qstack, n)
		switch x := n.(type) {
		case *ast.AssignStmt:
			if x.Tok == token.SUB_ASSIGN && len(x.Rhs) == 1 {
				sub = x.Rhs[0]
			} else if sb := qsSubtraction(info, x, qstack); sb != nil {
				sub = sb.off
			}
		case *ast.IfStmt:
			if b, ok := ast.Unparen(x.Cond).(*ast.BinaryExpr); ok && b.Op == token.NEQ && strings.Contains(types.ExprString(b), "len(") && strings.Contains(types.ExprString(b), "Len()") && blockDiverges(info, x.Body) {
				lenCheck = true
			}
		}
		return true
	})
	if sub == nil {
		s.Undecided(nil, key, fd.Pos(), "no 'quality -= offset' found")
	} else {
		og := t.origins(p, fd, sub, 0)
		if ok, bad := allFrom(og, modPath+"/pkg/obioptions.InputQualityShift"); ok {
			s.Pass(nil, key, sub.Pos(), fmt.Sprintf("offset subtracted comes from obioptions.InputQualityShift() on all %d call chain(s)", len(og)))
		} else {
			s.Fail(nil, key, sub.Pos(), "the offset subtracted from the quality bytes does not come from obioptions.InputQualityShift() on every call chain ("+bad+")")
		}
	}
	s.Check(lenCheck, nil, key+":length", fd.Pos(), "quality and sequence lengths are compared with a fatal branch", "the reader does not reject a record whose quality line and sequence differ in length")
}

// qsUsesClamped: one operand of the addition is the clamped score — a min(…, 93) call, a variable assigned 93 under 'if v > 93', or a variable defined from such a min call.
func qsUsesClamped(info *types.Info, fd *ast.FuncDecl, add *ast.BinaryExpr, clamped map[types.Object]bool, minCalls map[*ast.CallExpr]bool) bool {
	defs := collectDefs(info, fd)
	var is func(e ast.Expr, depth int) bool
	is = func(e ast.Expr, depth int) bool {
		e = ast.Unparen(e)
		if depth > 4 {
			return false
		}
		switch x := e.(type) {
		case *ast.CallExpr:
			if minCalls[x] {
				return true
			}
			if tv, ok := info.Types[x.Fun]; ok && tv.IsType() && len(x.Args) == 1 {
				return is(x.Args[0], depth+1)
			}
		case *ast.Ident:
			o := info.ObjectOf(x)
			if clamped[o] {
				return true
			}
			for _, d := range defs[o] {
				if d != nil && is(d, depth+1) {
					return true
				}
			}
		case *ast.IndexExpr:
			if o := rootObj(info, x.X); o != nil && clamped[o] {
				return true
			}
		}
		return false
	}
	return is(add.X, 0) || is(add.Y, 0)
}
