package main

// Core of the obitools4 property checker: program loading, rule registry,
// obligations.  Every rule enumerates its instances from /repo's current
// source and emits one obligation per instance, keyed by rule + resolved
// construct (never by line).

import (
	"fmt"
	"go/ast"
	"go/token"
	"go/types"
	"os"
	"path/filepath"
	"sort"
	"strings"
	"sync"
	"time"

	"golang.org/x/tools/go/packages"
	"golang.org/x/tools/go/ssa"
	"golang.org/x/tools/go/ssa/ssautil"
)

const modPath = "git.metabarcoding.org/obitools/obitools4/obitools4"

type Verdict int

const (
	Pass Verdict = iota
	Violation
	Undecided
)

func (v Verdict) String() string {
	switch v {
	case Pass:
		return "pass"
	case Violation:
		return "VIOLATION"
	}
	return "UNDECIDED"
}

// Ob is one proof obligation: a rule applied to one construct.
type Ob struct {
	Props   []string `json:"properties"`
	Rule    string   `json:"rule"`
	Key     string   `json:"key"` // stable construct key
	Pos     string   `json:"pos"`
	Verdict string   `json:"verdict"`
	Msg     string   `json:"msg"`
	Path    []string `json:"path,omitempty"`
	v       Verdict
}

type Rule struct {
	ID    string
	Props []string // properties this rule contributes to
	Doc   string
	Min   int  // minimal number of instances confirmed by hand (vacuity guard)
	SSA   bool // needs the SSA program
	Run   func(c *Ctx, s *Sink)
}

var rules []*Rule

func register(r *Rule) { rules = append(rules, r) }

type Sink struct {
	c    *Ctx
	rule *Rule
	obs  []*Ob
	// default properties for obligations of the running rule
	props []string
}

func (s *Sink) add(v Verdict, props []string, key string, pos token.Pos, msg string, path ...string) *Ob {
	if props == nil {
		props = s.props
	}
	o := &Ob{Props: props, Rule: s.rule.ID, Key: key, Pos: s.c.Pos(pos), Verdict: v.String(), Msg: msg, Path: path, v: v}
	s.obs = append(s.obs, o)
	return o
}

func (s *Sink) Pass(props []string, key string, pos token.Pos, msg string) {
	s.add(Pass, props, key, pos, msg)
}
func (s *Sink) Fail(props []string, key string, pos token.Pos, msg string, path ...string) {
	s.add(Violation, props, key, pos, msg, path...)
}
func (s *Sink) Undecided(props []string, key string, pos token.Pos, msg string) {
	s.add(Undecided, props, key, pos, msg)
}

// Check emits Pass when ok, otherwise a violation with msg.
func (s *Sink) Check(ok bool, props []string, key string, pos token.Pos, okmsg, failmsg string) {
	if ok {
		s.Pass(props, key, pos, okmsg)
	} else {
		s.Fail(props, key, pos, failmsg)
	}
}

type Ctx struct {
	Repo    string
	Tier    string
	Pkgs    []*packages.Package
	Fset    *token.FileSet
	byPath  map[string]*packages.Package
	Overlay map[string][]byte

	ssaOnce sync.Once
	Prog    *ssa.Program
	SSAPkgs []*ssa.Package

	loadTime time.Duration
	nFuncs   int

	declOnce sync.Once
	decls    map[types.Object]*ast.FuncDecl
	declPkg  map[*ast.FuncDecl]*packages.Package
}

var goEnv = []string{"GOFLAGS=-mod=mod", "GOPROXY=off", "GOSUMDB=off", "GOTOOLCHAIN=local", "GOWORK=off", "CGO_ENABLED=1"}

const expectedPackages = 76

func Load(repo string, overlay map[string][]byte) (*Ctx, error) {
	t0 := time.Now()
	env := os.Environ()
	// drop conflicting variables
	var clean []string
	for _, e := range env {
		k := strings.SplitN(e, "=", 2)[0]
		switch k {
		case "GOFLAGS", "GOPROXY", "GOSUMDB", "GOTOOLCHAIN", "GOWORK", "CGO_ENABLED":
			continue
		}
		clean = append(clean, e)
	}
	clean = append(clean, goEnv...)
	fset := token.NewFileSet()
	cfg := &packages.Config{
		Mode:    packages.LoadAllSyntax,
		Dir:     repo,
		Env:     clean,
		Fset:    fset,
		Overlay: overlay,
	}
	pkgs, err := packages.Load(cfg, "./pkg/...", "./cmd/obitools/...")
	if err != nil {
		return nil, fmt.Errorf("load: %v", err)
	}
	var errs []string
	for _, p := range pkgs {
		for _, e := range p.Errors {
			errs = append(errs, e.Error())
		}
	}
	if len(errs) > 0 {
		return nil, fmt.Errorf("type-check/load errors (%d): %s", len(errs), strings.Join(errs[:min(len(errs), 5)], "; "))
	}
	if len(pkgs) < expectedPackages {
		return nil, fmt.Errorf("only %d packages loaded, expected >= %d", len(pkgs), expectedPackages)
	}
	c := &Ctx{Repo: repo, Pkgs: pkgs, Fset: fset, byPath: map[string]*packages.Package{}, Overlay: overlay}
	for _, p := range pkgs {
		c.byPath[p.PkgPath] = p
		for _, f := range p.Syntax {
			for _, d := range f.Decls {
				if _, ok := d.(*ast.FuncDecl); ok {
					c.nFuncs++
				}
			}
		}
	}
	c.loadTime = time.Since(t0)
	return c, nil
}

func (c *Ctx) SSA() *ssa.Program {
	c.ssaOnce.Do(func() {
		prog, pkgs := ssautil.AllPackages(c.Pkgs, ssa.InstantiateGenerics)
		prog.Build()
		c.Prog = prog
		c.SSAPkgs = pkgs
	})
	return c.Prog
}

// Pkg returns the package with the given path relative to the module
// ("pkg/obiiter") or nil.
func (c *Ctx) Pkg(rel string) *packages.Package {
	return c.byPath[modPath+"/"+rel]
}

// Rel returns the module-relative path of a package.
func rel(pkgPath string) string {
	return strings.TrimPrefix(strings.TrimPrefix(pkgPath, modPath), "/")
}

func (c *Ctx) Pos(p token.Pos) string {
	if !p.IsValid() {
		return "-"
	}
	pos := c.Fset.Position(p)
	f := pos.Filename
	if r, err := filepath.Rel(c.Repo, f); err == nil && !strings.HasPrefix(r, "..") {
		f = r
	}
	return fmt.Sprintf("%s:%d", f, pos.Line)
}

func (c *Ctx) indexDecls() {
	c.declOnce.Do(func() {
		c.decls = map[types.Object]*ast.FuncDecl{}
		c.declPkg = map[*ast.FuncDecl]*packages.Package{}
		for _, p := range c.Pkgs {
			for _, f := range p.Syntax {
				for _, d := range f.Decls {
					if fd, ok := d.(*ast.FuncDecl); ok {
						if o := p.TypesInfo.Defs[fd.Name]; o != nil {
							c.decls[o] = fd
						}
						c.declPkg[fd] = p
					}
				}
			}
		}
	})
}

// DeclOf returns the declaration of a function object of the program.
func (c *Ctx) DeclOf(o types.Object) (*ast.FuncDecl, *packages.Package) {
	c.indexDecls()
	if f, ok := o.(*types.Func); ok {
		o = f.Origin()
	}
	fd := c.decls[o]
	if fd == nil {
		return nil, nil
	}
	return fd, c.declPkg[fd]
}

// FuncName gives a stable readable name "pkg/obiiter.(IBioSequence).Rebatch".
func funcName(p *packages.Package, fd *ast.FuncDecl) string {
	name := fd.Name.Name
	if fd.Recv != nil && len(fd.Recv.List) > 0 {
		name = "(" + recvTypeName(fd.Recv.List[0].Type) + ")." + name
	}
	return rel(p.PkgPath) + "." + name
}

func recvTypeName(e ast.Expr) string {
	switch t := e.(type) {
	case *ast.StarExpr:
		return "*" + recvTypeName(t.X)
	case *ast.Ident:
		return t.Name
	case *ast.IndexExpr:
		return recvTypeName(t.X)
	case *ast.IndexListExpr:
		return recvTypeName(t.X)
	}
	return "?"
}

// FindFunc looks a function up by package (module-relative) and name; name is
// "Func" or "(Recv).Method" / "(*Recv).Method".
func (c *Ctx) FindFunc(pkgRel, name string) (*ast.FuncDecl, *packages.Package) {
	p := c.Pkg(pkgRel)
	if p == nil {
		return nil, nil
	}
	for _, f := range p.Syntax {
		for _, d := range f.Decls {
			if fd, ok := d.(*ast.FuncDecl); ok {
				n := fd.Name.Name
				if fd.Recv != nil && len(fd.Recv.List) > 0 {
					n = "(" + recvTypeName(fd.Recv.List[0].Type) + ")." + n
				}
				if n == name {
					return fd, p
				}
			}
		}
	}
	return nil, nil
}

// EachFunc calls f for every function declaration with a body in packages
// whose module-relative path has one of the prefixes (all if none given).
func (c *Ctx) EachFunc(prefixes []string, f func(p *packages.Package, fd *ast.FuncDecl)) {
	for _, p := range c.sortedPkgs() {
		r := rel(p.PkgPath)
		ok := len(prefixes) == 0
		for _, pre := range prefixes {
			if r == pre || strings.HasPrefix(r, pre+"/") {
				ok = true
			}
		}
		if !ok {
			continue
		}
		for _, file := range p.Syntax {
			for _, d := range file.Decls {
				if fd, isf := d.(*ast.FuncDecl); isf && fd.Body != nil {
					f(p, fd)
				}
			}
		}
	}
}

func (c *Ctx) sortedPkgs() []*packages.Package {
	ps := append([]*packages.Package(nil), c.Pkgs...)
	sort.Slice(ps, func(i, j int) bool { return ps[i].PkgPath < ps[j].PkgPath })
	return ps
}

// callee resolves the called function/method object of a call, or nil.
func callee(info *types.Info, call *ast.CallExpr) *types.Func {
	var id *ast.Ident
	switch f := ast.Unparen(call.Fun).(type) {
	case *ast.Ident:
		id = f
	case *ast.SelectorExpr:
		id = f.Sel
	case *ast.IndexExpr:
		switch g := ast.Unparen(f.X).(type) {
		case *ast.Ident:
			id = g
		case *ast.SelectorExpr:
			id = g.Sel
		}
	case *ast.IndexListExpr:
		switch g := ast.Unparen(f.X).(type) {
		case *ast.Ident:
			id = g
		case *ast.SelectorExpr:
			id = g.Sel
		}
	}
	if id == nil {
		return nil
	}
	if fn, ok := info.Uses[id].(*types.Func); ok {
		return fn
	}
	return nil
}

// fullName returns "pkgpath.Func" or "pkgpath.(Recv).Method" (pointer
// receivers are not distinguished) for a function object.
func fullName(fn *types.Func) string {
	if fn == nil {
		return ""
	}
	fn = fn.Origin()
	sig := fn.Type().(*types.Signature)
	pk := ""
	if fn.Pkg() != nil {
		pk = fn.Pkg().Path()
	}
	if r := sig.Recv(); r != nil {
		t := r.Type()
		if p, ok := t.(*types.Pointer); ok {
			t = p.Elem()
		}
		tn := "?"
		switch n := t.(type) {
		case *types.Named:
			tn = n.Obj().Name()
		case *types.Alias:
			tn = n.Obj().Name()
		case *types.Interface:
			tn = "interface"
		}
		return pk + ".(" + tn + ")." + fn.Name()
	}
	return pk + "." + fn.Name()
}

func isCallTo(info *types.Info, call *ast.CallExpr, names ...string) bool {
	n := fullName(callee(info, call))
	if n == "" {
		return false
	}
	for _, want := range names {
		if n == want || n == modPath+"/"+want {
			return true
		}
	}
	return false
}

// noReturn reports whether the call never returns (fatal logging, exit, panic).
func noReturnCall(info *types.Info, call *ast.CallExpr) bool {
	if id, ok := ast.Unparen(call.Fun).(*ast.Ident); ok && id.Name == "panic" {
		if _, isb := info.Uses[id].(*types.Builtin); isb {
			return true
		}
	}
	fn := callee(info, call)
	if fn == nil {
		return false
	}
	n := fullName(fn)
	switch {
	case n == "os.Exit", n == "runtime.Goexit":
		return true
	case strings.HasPrefix(n, "log.Fatal"), strings.HasPrefix(n, "log.Panic"):
		return true
	case strings.HasPrefix(n, "github.com/sirupsen/logrus.Fatal"), strings.HasPrefix(n, "github.com/sirupsen/logrus.Panic"):
		return true
	case strings.HasPrefix(n, "github.com/sirupsen/logrus.(Logger).Fatal"), strings.HasPrefix(n, "github.com/sirupsen/logrus.(Logger).Panic"),
		strings.HasPrefix(n, "github.com/sirupsen/logrus.(Entry).Fatal"), strings.HasPrefix(n, "github.com/sirupsen/logrus.(Entry).Panic"):
		return true
	}
	return false
}

func exprString(fset *token.FileSet, e ast.Expr) string {
	return types.ExprString(e)
}

func has(list []string, s string) bool {
	for _, x := range list {
		if x == s {
			return true
		}
	}
	return false
}

// nil2 adapts a node visitor to EachFunc (visits every node of every function body).
func nil2(f func(ast.Node)) func(p *packages.Package, fd *ast.FuncDecl) {
	return func(p *packages.Package, fd *ast.FuncDecl) {
		ast.Inspect(fd.Body, func(n ast.Node) bool {
			if n != nil {
				f(n)
			}
			return true
		})
	}
}
