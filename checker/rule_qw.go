package main

// QW — the quality scores follow the nucleotides (C07, C04).

import (
	"fmt"
	"go/ast"
	"go/token"
	"go/types"
	"strings"

	"golang.org/x/tools/go/packages"
)

func init() {
	register(&Rule{
		ID: "QW", Props: []string{"C07", "C04"}, Min: 3,
		Doc: `"for every sequence, with or without qualities, reverse-complementing twice restores nucleotides and qualities": ReverseComplement and Subsequence index the scores with the length of
the nucleotides, so a BioSequence holds one score per nucleotide or none. (1) a function that appends nucleotides to a BioSequence x (x.Write / WriteString / WriteByte, resolved by type,
outside the file that defines them) also settles the scores of x after it: a call x.WriteQualities / WriteByteQualities / ClearQualities / SetQualities that is unconditional, or whose if has an
else branch doing the same, or — x being a sequence created in the function — whose condition is textually the one under which the scores of x were filled. Join appended the nucleotides
only (11 nucleotides, 6 scores: ReverseComplement panics, index out of range [10] with length 6; Subsequence returns bytes lying beyond the vector), JoinPairedSequence did so when only the
forward read has scores (obipairing -F f.fq -R r.fa: a FASTQ record of 50 nucleotides and 20 scores). (2) the CSV reader compares the length of the qualities column with the length of the
sequence before SetQualities (obicomplement of 'acgtacgt,IIII' panicked, of 'acgt,ABCDEFGH' wrote DCBAEFGH).`,
		Run: func(c *Ctx, s *Sink) {
			isBS := func(info *types.Info, call *ast.CallExpr, names ...string) (types.Object, bool) {
				fn := fullName(callee(info, call))
				for _, n := range names {
					if strings.HasSuffix(fn, "/pkg/obiseq.(BioSequence)."+n) {
						sel, ok := ast.Unparen(call.Fun).(*ast.SelectorExpr)
						if !ok {
							return nil, false
						}
						return rootObj(info, sel.X), true
					}
				}
				return nil, false
			}
			qualOps := []string{"WriteQualities", "WriteByteQualities", "ClearQualities", "SetQualities"}
			c.EachFunc([]string{"pkg"}, func(p *packages.Package, fd *ast.FuncDecl) {
				info := p.TypesInfo
				// the methods themselves
				if fd.Recv != nil && strings.HasSuffix(p.PkgPath, "/pkg/obiseq") {
					switch fd.Name.Name {
					case "Write", "WriteString", "WriteByte", "WriteQualities", "WriteByteQualities":
						return
					}
				}
				type site struct {
					call   *ast.CallExpr
					guards []*ast.IfStmt // enclosing ifs (body side or else side)
					inElse []bool
				}
				var writes, quals []site
				qualAssignGuards := map[types.Object][]string{}
				var stack []ast.Node
				guardsOf := func() ([]*ast.IfStmt, []bool) {
					var g []*ast.IfStmt
					var e []bool
					for k := 0; k+1 < len(stack); k++ {
						if is, ok := stack[k].(*ast.IfStmt); ok {
							if stack[k+1] == ast.Node(is.Body) {
								g, e = append(g, is), append(e, false)
							} else if is.Else != nil && stack[k+1] == ast.Node(is.Else) {
								g, e = append(g, is), append(e, true)
							}
						}
					}
					return g, e
				}
				ast.Inspect(fd.Body, func(n ast.Node) bool {
					if n == nil {
						stack = stack[:len(stack)-1]
						return true
					}
					stack = append(stack, n)
					switch y := n.(type) {
					case *ast.CallExpr:
						if _, ok := isBS(info, y, "Write", "WriteString", "WriteByte"); ok {
							g, e := guardsOf()
							writes = append(writes, site{y, g, e})
						}
						if _, ok := isBS(info, y, qualOps...); ok {
							g, e := guardsOf()
							quals = append(quals, site{y, g, e})
						}
					case *ast.AssignStmt:
						for _, l := range y.Lhs {
							if sel, ok := ast.Unparen(l).(*ast.SelectorExpr); ok && sel.Sel.Name == "qualities" {
								if o := rootObj(info, sel.X); o != nil {
									g, _ := guardsOf()
									txt := ""
									if len(g) > 0 {
										txt = types.ExprString(g[len(g)-1].Cond)
									}
									qualAssignGuards[o] = append(qualAssignGuards[o], txt)
								}
							}
						}
					}
					return true
				})
				objOf := func(st site) types.Object {
					sel := ast.Unparen(st.call.Fun).(*ast.SelectorExpr)
					return rootObj(info, sel.X)
				}
				elseSettles := func(is *ast.IfStmt, x types.Object) bool {
					if is.Else == nil {
						return false
					}
					found := false
					ast.Inspect(is.Else, func(m ast.Node) bool {
						if c2, ok := m.(*ast.CallExpr); ok {
							if o, ok := isBS(info, c2, qualOps...); ok && o == x {
								found = true
							}
						}
						return true
					})
					return found
				}
				bodySettles := func(is *ast.IfStmt, x types.Object) bool {
					found := false
					ast.Inspect(is.Body, func(m ast.Node) bool {
						if c2, ok := m.(*ast.CallExpr); ok {
							if o, ok := isBS(info, c2, qualOps...); ok && o == x {
								found = true
							}
						}
						return true
					})
					return found
				}
				for i, w := range writes {
					x := objOf(w)
					key := fmt.Sprintf("%s:%s#%d:scores-follow", funcName(p, fd), ast.Unparen(w.call.Fun).(*ast.SelectorExpr).Sel.Name, i+1)
					if x == nil {
						s.Undecided(nil, key, w.call.Pos(), "the sequence written is not a variable")
						continue
					}
					ok, why := false, ""
					for _, q := range quals {
						if objOf(q) != x || q.call.Pos() < w.call.Pos() {
							continue
						}
						// the guards of q that do not enclose w
						fine := true
						for gi, g := range q.guards {
							shared := false
							for wi, wg := range w.guards {
								if wg == g && w.inElse[wi] == q.inElse[gi] {
									shared = true
								}
							}
							if shared {
								continue
							}
							// the other side of the if settles the scores as well
							if !q.inElse[gi] && elseSettles(g, x) || q.inElse[gi] && bodySettles(g, x) {
								continue
							}
							// x was filled under the same condition
							same := len(qualAssignGuards[x]) > 0 && !q.inElse[gi]
							for _, t := range qualAssignGuards[x] {
								if t != types.ExprString(g.Cond) {
									same = false
								}
							}
							if same {
								continue
							}
							fine = false
						}
						if fine {
							ok, why = true, "followed by "+ast.Unparen(q.call.Fun).(*ast.SelectorExpr).Sel.Name+" on every path (unconditional, both sides of the if, or the condition under which the scores were filled)"
							break
						}
					}
					if ok {
						s.Pass(nil, key, w.call.Pos(), why)
					} else {
						s.Fail(nil, key, w.call.Pos(), "nucleotides are appended to the sequence and, on some path, its quality scores are neither extended nor dropped: Join of acgtac (6 scores) and ggttt gives 11 nucleotides with 6 scores — ReverseComplement panics (index out of range [10] with length 6), Subsequence [4:9] returns the scores 14 15 0 0 0 read beyond the vector; obipairing -F f.fq -R r.fa writes a FASTQ record of 50 nucleotides and 20 scores")
					}
				}
			})
			// (2) the CSV reader
			c.EachFunc([]string{"pkg/obiformats"}, func(p *packages.Package, fd *ast.FuncDecl) {
				if !strings.Contains(strings.ToLower(fd.Name.Name), "csv") {
					return
				}
				info := p.TypesInfo
				n := 0
				var stack []ast.Node
				ast.Inspect(fd.Body, func(nd ast.Node) bool {
					if nd == nil {
						stack = stack[:len(stack)-1]
						return true
					}
					stack = append(stack, nd)
					call, ok := nd.(*ast.CallExpr)
					if !ok {
						return true
					}
					x, ok := isBS(info, call, "SetQualities")
					if !ok || len(call.Args) != 1 {
						return true
					}
					n++
					key := fmt.Sprintf("%s:SetQualities#%d:as-many-scores-as-nucleotides", funcName(p, fd), n)
					q := rootObj(info, call.Args[0])
					// a comparison of len(q) with x.Len() (or len of the sequence) in an if that precedes the call in an enclosing block and leaves
					found := false
					for k := len(stack) - 1; k >= 0 && !found; k-- {
						blk, ok := stack[k].(*ast.BlockStmt)
						if !ok {
							continue
						}
						for _, st := range blk.List {
							if st.Pos() >= call.Pos() {
								break
							}
							is, ok := st.(*ast.IfStmt)
							if !ok || !leavesOrFatal(info, is.Body) {
								continue
							}
							hasLenQ, hasLenX := false, false
							ast.Inspect(is.Cond, func(m ast.Node) bool {
								if c2, ok := m.(*ast.CallExpr); ok {
									if id, ok := c2.Fun.(*ast.Ident); ok && id.Name == "len" && len(c2.Args) == 1 && q != nil && rootObj(info, c2.Args[0]) == q {
										hasLenQ = true
									}
									if o, ok := isBS(info, c2, "Len"); ok && o == x {
										hasLenX = true
									}
								}
								return true
							})
							if hasLenQ && hasLenX {
								found = true
							}
						}
					}
					if found {
						s.Pass(nil, key, call.Pos(), "the number of scores is compared with the number of nucleotides, and a difference ends the program")
					} else {
						s.Fail(nil, key, call.Pos(), "the qualities column is stored whatever its length: obicomplement of the CSV record s1,acgtacgt,IIII panics (index out of range [7] with length 4), of s1,acgt,ABCDEFGH writes the scores DCBAEFGH (the first four reversed, the others kept)")
					}
					return true
				})
			})
		},
	})
}

// leavesOrFatal: the block ends the function or the program.
func leavesOrFatal(info *types.Info, b *ast.BlockStmt) bool {
	if len(b.List) == 0 {
		return false
	}
	switch y := b.List[len(b.List)-1].(type) {
	case *ast.ReturnStmt:
		return true
	case *ast.BranchStmt:
		return y.Tok == token.CONTINUE || y.Tok == token.BREAK
	case *ast.ExprStmt:
		if call, ok := y.X.(*ast.CallExpr); ok {
			if id, ok := call.Fun.(*ast.Ident); ok && id.Name == "panic" {
				return true
			}
			fn := fullName(callee(info, call))
			return strings.Contains(fn, "Fatal") || strings.Contains(fn, "Panic") || fn == "os.Exit"
		}
	}
	return false
}

func init() {
	register(&Rule{
		ID: "NQ", Props: []string{"C07"}, Min: 1,
		Doc: `"copy obeys its algebraic laws": a copy answers as its source. Copy() and ReverseComplement() give a sequence without scores an EMPTY vector (CopySlice(nil) is not nil), so a predicate of
pkg/obiseq — a function returning bool — that tests the field sequence or qualities of a BioSequence against nil does it in conjunction with a test of its length (as HasSequence and
HasQualities do), or goes through those two: HasAttribute("qualities") tested != nil only and answered false for a record and true for its copy (while GetAttribute returned nothing).`,
		Run: func(c *Ctx, s *Sink) {
			preds := 0
			defer func() {
				if preds > 0 {
					s.Pass(nil, "pkg/obiseq:predicates-scanned", token.NoPos, fmt.Sprintf("%d functions returning bool scanned", preds))
				}
			}()
			c.EachFunc([]string{"pkg/obiseq"}, func(p *packages.Package, fd *ast.FuncDecl) {
				info := p.TypesInfo
				res := fd.Type.Results
				if res == nil || len(res.List) != 1 || types.ExprString(res.List[0].Type) != "bool" {
					return
				}
				preds++
				n := 0
				var stack []ast.Node
				ast.Inspect(fd.Body, func(nd ast.Node) bool {
					if nd == nil {
						stack = stack[:len(stack)-1]
						return true
					}
					stack = append(stack, nd)
					b, ok := nd.(*ast.BinaryExpr)
					if !ok || b.Op != token.NEQ && b.Op != token.EQL {
						return true
					}
					var fld *ast.SelectorExpr
					for _, pair := range [][2]ast.Expr{{b.X, b.Y}, {b.Y, b.X}} {
						if id, ok := ast.Unparen(pair[1]).(*ast.Ident); ok && id.Name == "nil" {
							if sel, ok := ast.Unparen(pair[0]).(*ast.SelectorExpr); ok && (sel.Sel.Name == "sequence" || sel.Sel.Name == "qualities") {
								if t := info.TypeOf(sel.X); t != nil && strings.HasSuffix(strings.TrimPrefix(t.String(), "*"), "/pkg/obiseq.BioSequence") {
									fld = sel
								}
							}
						}
					}
					if fld == nil {
						return true
					}
					n++
					key := fmt.Sprintf("%s:%s-nil-test#%d:with-its-length", funcName(p, fd), fld.Sel.Name, n)
					// the outermost && / || expression holding the test
					top := ast.Expr(b)
					for k := len(stack) - 2; k >= 0; k-- {
						if e, ok := stack[k].(*ast.BinaryExpr); ok && (e.Op == token.LAND || e.Op == token.LOR) {
							top = e
						} else if _, ok := stack[k].(*ast.ParenExpr); !ok {
							break
						}
					}
					hasLen := false
					ast.Inspect(top, func(m ast.Node) bool {
						if c2, ok := m.(*ast.CallExpr); ok && len(c2.Args) == 1 {
							if id, ok := c2.Fun.(*ast.Ident); ok && id.Name == "len" && types.ExprString(c2.Args[0]) == types.ExprString(fld) {
								hasLen = true
							}
						}
						return true
					})
					if hasLen {
						s.Pass(nil, key, b.Pos(), "the nil test goes with a test of the length of the vector")
					} else {
						s.Fail(nil, key, b.Pos(), "the predicate tests the vector against nil only: a copy (and a reverse complement) of a record without scores holds an empty vector, not nil — HasAttribute(\"qualities\") is false for the record and true for its copy, while GetAttribute(\"qualities\") returns nothing for both")
					}
					return true
				})
			})
		},
	})
}
