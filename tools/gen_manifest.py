#!/usr/bin/env python3
"""Writes /verif/MANIFEST.json from the table below (kept next to the checker so that
claimed properties, techniques and not-applicable reasons stay in one place)."""
import json, os
HERE = os.path.dirname(os.path.dirname(os.path.abspath(__file__)))

ENV = "GOFLAGS=-mod=mod GOPROXY=off GOSUMDB=off GOTOOLCHAIN=local GOWORK=off"
NOTE = ("Trusted: go/packages+go/types+go/cfg+go/ssa of x/tools v0.29.0 model the built program (76 packages, cmd/test excluded: "
        "it does not compile upstream); oracles embedded in the checker; third-party libraries behave as documented. "
        "The rules decide necessary structural conditions only, on every path of the analysed constructs; "
        "they do not establish the behavioural property.")

# id -> (technique, level text, design ref)
CLAIMED = {}
NA = {}
exec(open(os.path.join(HERE, "tools", "claims.py")).read())

props = [json.loads(l) for l in open(os.path.join(HERE, "properties.jsonl")) if l.strip()]
checks = []
na = []
for p in props:
    pid = p["id"]
    if pid in CLAIMED:
        tech, text, ref = CLAIMED[pid]
        checks.append({
            "property_id": pid,
            "quick_cmd": "./bin/obiverif check %s --tier quick" % pid,
            "thorough_cmd": "./bin/obiverif check %s --tier thorough" % pid,
            "evidence_file": "/verif/evidence/%s.json" % pid,
            "replay_cmd_template": "./bin/obiverif replay {path}",
            "engine": "obiverif",
            "level_claimed": {"category": "other", "text": text, "design_ref": ref},
            "level_note": NOTE,
            "technique": tech,
        })
    else:
        na.append({"property_id": pid, "reason": NA.get(pid, "no static rule built yet for this property (see DESIGN.md section 6, build order)")})

manifest = {
    "version": 1,
    "setup_cmd": "cd checker && %s go build -o ../bin/obiverif ." % ENV,
    "hooks": {
        "guard": "verif",
        "enable": "none: static analysis needs no instrumentation; /repo is analysed as it is",
        "baseline_off_cmd": "cd /repo && %s go test -vet=off -count=1 ./..." % ENV,
        "source_commits": [],
        "add_only": True,
    },
    "engines": [{
        "name": "obiverif",
        "path": "checker/",
        "serves_properties": sorted(CLAIMED),
        "kind_free_text": "repository-specific static analyser (Go, x/tools v0.29.0: go/packages, go/types, go/cfg, go/ssa); one rule set per property, instances enumerated from /repo's working tree on every run",
    }],
    "checks": checks,
    "not_applicable": na,
    "notes": "All checks are static (no code of /repo is executed). known_findings.jsonl lists recorded/fixed genuine defects; seeds/ holds seeded defects replayed in memory by the thorough tier (self-test of the rules; never a verdict on /repo); seeded/ holds independently produced breaking changes with demonstrations.",
}
json.dump(manifest, open(os.path.join(HERE, "MANIFEST.json"), "w"), indent=1)
print("claimed:", sorted(CLAIMED), "n/a:", [x["property_id"] for x in na])
