#!/bin/bash
# usage: eval_mutant.sh <diff> <demo_file> <demo_dest_dir_rel> <test-run-regex> [extra go test flags]
# Confirms an externally produced breaking change in a scratch worktree of /repo:
#   demo passes on the unchanged tree, fails with the change; build and pinned tests still pass;
# then runs every check of /verif against the changed tree and prints what fires.
DIFF=$1; DEMO=$2; DEST=$3; RUN=$4; shift 4
export GOFLAGS=-mod=mod GOPROXY=off GOSUMDB=off GOTOOLCHAIN=local GOWORK=off
WT=/tmp/evalwt-$$
git -C /repo worktree add -q $WT HEAD || exit 2
trap 'git -C /repo worktree remove --force $WT' EXIT
cp $DEMO $WT/$DEST/zz_demo_eval_test.go
cd $WT
echo "== demo on unchanged tree"
go test -vet=off -count=1 -run "$RUN" "$@" ./$DEST/ 2>&1 | grep -E "^(ok|FAIL|---|panic)" | head -5
echo "== apply $DIFF"
git apply $DIFF || { echo "DIFF DOES NOT APPLY"; exit 3; }
go build ./pkg/... ./cmd/obitools/... 2>&1 | grep -E "^[a-z./_]+\.go:[0-9]+" | head
echo "== demo with change"
go test -vet=off -count=1 -run "$RUN" "$@" ./$DEST/ 2>&1 | grep -E "^(ok|FAIL|---|panic)" | head -5
rm $WT/$DEST/zz_demo_eval_test.go
echo "== pinned tests with change"
/verif/tools/baseline.sh $WT | tail -3
echo "== checks"
/verif/bin/obiverif all --repo $WT --no-evidence 2>&1 | grep -E "rule |^VIOLATION" | grep -v "^VIOLATION" | cut -c1-400
/verif/bin/obiverif all --repo $WT --no-evidence 2>&1 | grep -E "^property=" | grep -v "violations=0"
