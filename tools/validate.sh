#!/bin/bash
# validates MANIFEST.json and every evidence file against the harness schemas
cd "$(dirname "$0")/.." && python3-vt - <<'PY'
import json,jsonschema,glob
jsonschema.validate(json.load(open('MANIFEST.json')),json.load(open('/root/.vp/MANIFEST.schema.json')));print('manifest ok')
s=json.load(open('/root/.vp/EVIDENCE.schema.json'))
for f in sorted(glob.glob('evidence/C*.json')):
    jsonschema.validate(json.load(open(f)),s)
print('evidence ok', len(glob.glob('evidence/C*.json')))
PY
