#!/bin/bash
# usage: eval_refactor.sh <diff>...
# Applies each behaviour-preserving refactoring (produced by an independent sub-agent) to a scratch
# worktree of /repo HEAD, checks that it builds, and runs every check: any VIOLATION / UNDECIDED is a
# false alarm of the machinery.
export GOFLAGS=-mod=mod GOPROXY=off GOSUMDB=off GOTOOLCHAIN=local GOWORK=off
for DIFF in "$@"; do
  WT=/tmp/evalref-$$
  git -C /repo worktree add -q $WT HEAD || exit 2
  echo "######## $DIFF"
  if ! git -C $WT apply $DIFF 2>/dev/null; then echo "DIFF DOES NOT APPLY"; git -C /repo worktree remove --force $WT; continue; fi
  (cd $WT && go build ./pkg/... ./cmd/obitools/... 2>&1 | grep -E "^[a-z./_]+\.go:[0-9]+" | head -5)
  /verif/bin/obiverif all --repo $WT --no-evidence 2>&1 | grep -E "rule |^UNDECIDED" | cut -c1-500 | sort -u
  /verif/bin/obiverif all --repo $WT --no-evidence 2>&1 | grep -E "^property=" | grep -v "violations=0" | cut -c1-120
  git -C /repo worktree remove --force $WT
done
