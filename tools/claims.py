# Table read by gen_manifest.py.  CLAIMED: id -> (technique, level text, DESIGN.md ref)
IT = "typestate/dataflow over go/cfg + symbolic WaitGroup accounting on the iterator protocol (IT-1..6)"
CLAIMED = {
 "C01": (IT + "; chunk numbering pass-through",
         "Decides the structural clause of C01 that chunks keep their number through the parsers (exactly one push per chunk on every path), that every reader stream is closed exactly once after its last push and that order-erasing consumers read a sorted stream. Necessary conditions only; byte-level parsing is not decided.",
         "DESIGN.md §4 C01"),
 "C03": (IT + "; push-back before finished (IT-9), final flush of accumulation buffers (IT-10); re-sequencer drain parity (W-1); combinator results used (MU)",
         "Decides on every iterator creation site of the program (47) the lifecycle, producer accounting, exactly-one-Done, gap-free 0,1,2,... numbering and sorted-before-renumber clauses of C03 on every control-flow path. Necessary conditions of 'exactly once, in order, terminates'; slicing arithmetic and deadlock freedom are not decided.",
         "DESIGN.md §4 C03"),
 "C04": ("re-sequencer shape comparison (W-1), iterator protocol typestate (IT), writer registration/wait typestate (WE-2/3)",
         "Decides that the in-order branch and the drain loop of every writer's re-sequencing buffer perform the same emission with a counter incremented once per emission, that writer front-ends follow the iterator protocol and that the process waits for registered writers. Well-formedness of formatted records is trusted to go-json/encoding/csv.",
         "DESIGN.md §4 C04"),
 "C06": (IT + " on the dereplication pipeline; merge accounting def-use/typestate (DP, DP-branch, DP-ns, CL); ordering chain of the on-disk mode (WD); worker-pool join (WG)",
         "Decides lifecycle/numbering clauses of the obichunk/obiuniq streams (including the recursive producer registration), the must-depend clauses of the merge (count, statistics, write-back, plus-one branch selected by the merged record, no-singleton test), that the classifier is reset per batch, and that in on-disk mode a chunk file is closed before it is read back (writer closes its iterator after the chunk writer's completion signal, dispatcher drains before Done). The accounting identity over a data set is not decided.",
         "DESIGN.md §4 C06"),
 "C16": ("AST/type lints: option guard/use coherence (OG), combinator results used (MU), criterion builders all combined (CB), accumulation order of chained edits (CH); record-conservation typestate on per-record loops (RC); map-order taint (ND); iterator protocol on DivideOn/Distribute/PairTo (IT)",
         "Decides the combination-logic clauses of C16: every option guard uses the option it tests, every criterion builder is And-combined before the inversion, combinator results are never discarded, per-record loops of non-filter combinators forward every record on every path, edits are not applied in map order, and the routing combinators number and close their outputs correctly. The semantics of individual predicates is not decided.",
         "DESIGN.md §4 C16"),
 "C18": ("error-disposition dataflow on output sinks (WE-1), must-pass-through typestate with interprocedural summaries (WE-2), writer registration typestate (WE-3), origin tracing of the close flag (WE-4), drain parity (W-1)",
         "Decides that every Write/Flush/Close on the output path has its error consumed (fatal, returned or merged into a returned error) on all writers and in Wfile, that every main waits for every writer it may have started, and that writer goroutines unregister after their last write. Does not decide that the OS reports the failure.",
         "DESIGN.md §4 C18"),
 "C17": ("three-valued evaluation of error comparisons (RE-1), read-error disposition dataflow (RE-2, RE-4, RE-5), clang-AST guard rule on the C kseq wrapper + Go caller (K), AST scan of the third-party decoder sources for bare fixed-size-read errors (RE-6)",
         "Decides which error values the input path treats as a normal end of input: io.ErrUnexpectedEOF is never benign, every read error on the stream is fatal/propagated or restricted to io.EOF, errors are cleared only for io.EOF, 'no content' comes only from a read probe, the C reader consults zlib before reporting 'finished' and reports an empty-sequence record as a record, and no decoder put on the input path lets the io.EOF of a missing fixed-size section (gzip trailer, xz block header) escape from Read unless /repo guards it. Does not decide that each decompressor detects every corruption.",
         "DESIGN.md §4 C17"),
 "C05": ("ownership classification of stores in multi-instance goroutines with lock-ownership (GS), map-iteration-order taint with function summaries (ND), use-after-recycle typestate with callee summaries (UR), field-wise additive reduction (RD), table-loop coverage of per-worker indexes (AC)",
         "Excludes structural sources of schedule/run dependence in the record-wise commands: unsynchronised stores to shared state from goroutines that can run as several instances (a lock counts only if shared by the instances or owned by the object written), map iteration order reaching an order-sensitive sink (CSV columns, title-line attributes, chained edits), a sequence read or handed on after Recycle(), a per-worker scratch index not fully cleared, and a merge of per-worker summaries that is not additive field by field. Determinism of the produced bytes itself is not decided.",
         "DESIGN.md §4 C05"),
 "C13": ("ownership classification of stores in the comparison pools (GS); who-may-call / wait-before-use rule on the sequential phases (SQ); worker-pool join and Add/Done accounting (WG); edge/SonCount pairing (EG)",
         "Decides that the obiclean comparison workers write only their own row or synchronised shared nodes, that every worker that writes the graph signals the WaitGroup that is waited (amount = number of workers), that the whole-graph phases are never started from a goroutine and run after the workers were waited for, and that SonCount is incremented with every edge added to that father and decremented for every edge removed by the ratio filter. Exactness of the link relation and the weight formula are not decided.",
         "DESIGN.md §4 C13"),
 "C20": ("dimensional type system over straight-line limb arithmetic (LW1-LW4), may-dependence analysis of shifts (LW5), direction discipline of the limb shift primitives (LW6), truth tables of the derived ordering predicates over {<,=,>} and sign of Cmp (LW7)",
         "Types every word of the Uint64/Uint128/Uint256 arithmetic with its limb weight under the math/bits result conventions: operands of equal weight, carries consumed at the right weight, overflow values reaching the overflow test, limb-wise pairing of comparisons/bitwise ops/casts, and limb reachability of shifts. Values produced by a structurally right shift, and division, are not decided (that needs symbolic evaluation).",
         "DESIGN.md §4 C20"),
 "C09": ("finite evaluation of constant tables and of the loop-free symbol comparator against the IUPAC nomenclature (TB-2); scratch-buffer ownership in the callers (GS)",
         "Decides that the compatibility codes used by the LCS kernel are the IUPAC table, that the symbol comparator is exactly 'codes intersect' after case folding (hence symmetric), and that each worker owns its scratch matrix. The banded dynamic program and D1Or0's scan are not decided.",
         "DESIGN.md §4 C09"),
 "C07": ("finite evaluation (256-entry decision table) of the complement function against the IUPAC complement (TB-1); freshness rule on the stores into derived sequences (AL-1, AL-4); recycle-then-nil pairing (AL-2); loop-shape rule of the in-place swap (AL-3); linear-arithmetic entailment of the bounds of re-mapped annotation positions (SM) and exactly-once typestate of the shift (SM-once)",
         "Decides that complementing is the IUPAC complement, an involution on the alphabet, fixes '.'/'-' and exchanges '['/']'; that the in-place loop reaches the middle base; that Copy and Subsequence give their result fresh storage for every slice/map/pointer field and the shared default quality vector is never written; that Recycle drops every buffer it hands back to the pool; that every re-mapped pairing_mismatches position lies in 1..Len() of the derived sequence on every path and that the sub-sequence shift is applied exactly once. Window arithmetic of the nucleotides, qualities reversal values and which positions are kept are not decided.",
         "DESIGN.md §4 C07"),
 "C19": ("finite evaluation of the 2-bit code tables against the IUPAC nomenclature (TB-4); typestate rules on rolled k-mer words (KM-1, KM-3), window guard and window counter (KM-2, KM-4); worker-pool join (WG)",
         "Decides agreement of the k-mer code tables (codes, decode, complement = 3 - code), that a rolled word is masked before use, that a symbol is OR-ed only into a vacated slot, that the window counter restarts with the words, and that the fixed prefix loop is guarded. Weights, cycle detection and heaviest path are not decided.",
         "DESIGN.md §4 C19"),
 "C15": ("symbolic inequality over max/min/affine expressions of sequence lengths (PB), tie-append check, parallel-table alignment (PA, PB-pair), table-loop coverage (AC)",
         "Decides that the pruning threshold of each decreasing-Common4Mer scan is, for every reference length, at most the number of 4-mers the q-gram lemma guarantees a qualifying reference shares with the query, that the scan stops only strictly below it, that ties are appended, and that the reference, 4-mer-table and taxon tables handed to the search are filled at one index and truncated alike. Exactness of Common4Mer, the LCA index and MatchDistanceIndex are not decided.",
         "DESIGN.md §4 C15"),
 "C10": ("frame-of-reference def-use rule at the LocatePattern call sites (FR) with clamp-before-slice check",
         "Decides that offsets returned for a fragment are translated with the fragment's own low bound and that fragment bounds are clamped into the sequence. The bit-parallel C matcher is read through clang's AST for structural clauses only (tables, sibling agreement, the shape of its initial condition and of its transition), never for its values.",
         "DESIGN.md §4 C10"),
 "C11": ("role typing of the two orientation blocks of _Pcr: pattern provenance, must-depend of bounds, annotation def-use (PR)",
         "Decides that each orientation pairs a primer with the complement of the other one, uses the first primer's length for the amplicon length, derives the bounds from its own matches and annotates role-correctly. Completeness of the hit enumeration and circular arithmetic of Subsequence are not decided.",
         "DESIGN.md §4 C11"),
 "C02": ("guard analysis and finite evaluation of the transition table of the title-line scanner (JS, JS-A), finite evaluation of the symbol guards of splitter and parsers (LX-A), interprocedural origin tracing of the quality offsets (QS)",
         "Decides three structural clauses of the round trip: the scanner that delimits the JSON annotations honours string escapes, readers accept every symbol class the writers emit, and the quality offset added on output / subtracted on input comes from the option accessors (clamp at 93 before the addition, length check on input). Value equality of the round trip itself is not decided.",
         "DESIGN.md §4 C02"),
}
NA = {
 "C08": "every clause is an arithmetic identity over DP cells and read contents; no clause is visible in the shape of the code (DESIGN.md §5)",
 "C12": "orientation, tag coordinates, spacer arithmetic and nearest-tag uniqueness quantify over reads and sample sheets; candidate structural clauses are either unbreakable by realistic edits or brittle proxies (DESIGN.md §5)",
 "C14": "LCA/lineage/clade/rank agreement is universally quantified over trees and node pairs and lives in loop arithmetic on paths (DESIGN.md §5)",
}

# Round 7 (rules written after the bug hunts by independent agents, DESIGN.md §8bis): appended to the texts above.
_R7 = {
 "C01": ("; contradiction rule on option guards (OQ); sniffer constants (MT); who-reads-stdin reachability (ST)",
         " Also decides that a reader option tested before a store into the record is tested at every such store, that the format sniffer is given exactly the bytes read with a limit covering them and tries CSV last, and that standard input goes through the same decompression/sniffing chain as a file (the C reader is unreachable from the commands)."),
 "C02": ("; encoder-output origin (W-5), sniffer constants (MT), definite store of parsed OBI values (OH)",
         " Also decides that the JSON text of a record is the encoder's output unmodified, and that every value accepted by the OBI-format title parser is stored on every path."),
 "C03": ("; detached-writer registration (BG), lock-step stream exhaustion (NX), positive batch size (BS), stateless workers (PW, exposed-read analysis over go/cfg)",
         " Also decides that a goroutine writing a secondary output is registered before it starts, that two streams advanced in lock step are both checked for their end, that the batch size reaching Rebatch is at least 1, and that per-record workers carry no state from one record to the next."),
 "C04": ("; encoder-output origin (W-5), unconditional close of the buffered wrapper followed interprocedurally (W-6), constant folding of open flags (W-7)",
         " Also decides that the JSON text is not rewritten after encoding, that the buffered/compressing wrapper of every writer reaches an unconditional Close(), and that output files are opened truncated or in append mode on every path."),
 "C05": ("; pool-liveness rule (PL), batch-ordered Load (LD), stateless workers (PW)",
         " Also decides that nothing live is handed to the slice/annotation pools, that Load() takes batches in number order, and that workers do not write captured state."),
 "C07": ("; returned-value origin of ReverseComplement (AL-5), pool-liveness (PL), slice bounds of Subsequence proved by path enumeration with linear arithmetic incl. remainders (SB)",
         " Also decides that ReverseComplement never returns a remembered object, that the pools never hold a live buffer, and that every slice taken by Subsequence is within bounds for all from/to/circular (the length of a circular window is not decided)."),
 "C09": ("; packed-cell constants and length guard, role symmetry (LC)",
         " Also decides that the sentinel path length fits half the field, that longer inputs are refused, and that with free end gaps equal-length sequences are tried in both roles."),
 "C10": ("; clang-AST rules on the C pattern code (length bound, no character-wise reversal) and Go-side offset/abort/KeepAlive rules (CP)",
         " Also decides that patterns wider than the automaton word are refused, that patterns are never reversed character by character, that LocatePattern's -1 offset is clamped before being added, that BestMatch rejects out-of-sequence hits without indels only, and that the C hit stacks are read before a KeepAlive."),
 "C11": ("; window-holds-insert proof over the 64 paths of each orientation block (PCW, linear arithmetic with option getters read through), fragment overlap bound (FG)",
         " Also decides that the bounds handed to Subsequence for an amplicon satisfy to - from >= insert on every path, wrapped or not, and that fragments overlap by the longest amplicon with its primers and flanks; one known finding (duplicates inside overlaps)."),
 "C13": ("; strict abundance guard at every edge site (EG), batch-ordered Load (LD), stored-map accessors and reset of previous annotations (OC)",
         " Also decides that every link goes to a strictly more abundant sequence at every distance, that the data are loaded in batch order, and that what obiclean writes is what this run computed."),
 "C15": ("; one symbol class per search and ambiguity cell of the 4-mer tables (SYM), scan stops on the bound only (PRN), counter width (CW), packed-cell constants (LC)",
         " Also decides that prefilter, bound and aligner share one notion of matching symbols (ambiguity windows counted apart and added for both sequences), that no rank cut-off ends the scan, and that 4-mer counters cannot wrap below 2^32."),
 "C16": ("; stateless workers (PW), negation outermost over combinator chains (GV), detached-writer registration (BG)",
         " Also decides that -v negates the whole (pair) predicate, that workers keep no state between records, and that --save-discarded is written before the command exits."),
 "C17": ("; stdin reachability (ST), contradiction rule on EOF mapping inside decoder functions (RE-6), truth table + CRC/alarm clauses of the xz guard (RE-7)",
         " Also decides that stdin goes through the Go decoders, that no decoder function maps some of its read errors to ErrUnexpectedEOF and returns later ones bare, and that the xz wrapper vouches for the end of a stream by the footer CRC and by complete reads."),
 "C18": ("; error disposition of the outputs the commands print themselves (EO)",
         " Also decides that csv writers test Error() after Flush(), that results printed by a main have their error tested, and that files created by the tools have open, write/flush and close errors tested."),
 "C19": ("; length guard and recursion fan-out of DeBruijnGraph.Push (DB), counter width (CW)",
         " Also decides that Push admits sequences of length k and visits each window once, and that 4-mer counters are at least 32 bits wide."),
 "C20": ("; no order comparison on a truncating shift (LW8)",
         " Also decides that LeftShift results are never operands of an order comparison (Uint256.Div)."),
}
for _k, (_t, _l) in _R7.items():
    _a, _b, _c = CLAIMED[_k]
    CLAIMED[_k] = (_a + _t, _b + _l, _c)

# Round 8 (rules written after the second hunt, on the repaired tree, DESIGN.md §8ter): appended likewise.
_R8 = {
 "C01": ("; epilogue of the chunk parsers (FE shape test, FE-2 finite evaluation per state); start-line-only reset oracle (RS)",
         " Also decides that the EMBL/GenBank parsers refuse data ending inside an entry, that the FASTA/FASTQ state machines complete or refuse the record pending at the end of a chunk for every state, and that nothing set under an optional line survives the end of a record."),
 "C02": ("; contradictory stores (DS, self-tested), window-aware FASTQ detector (MT), bounded buffer reservation (GR), JSON errors tested (JE)",
         " Also decides that no conditional store is overwritten by the next statement (the int conversion of JSON numbers), that the FASTQ detector reads the size of its window, that Grow is not given a product of two data sizes, and that no JSON conversion error is dropped."),
 "C03": ("; per-argument flags (XL), length-guarded first element (E0, linear arithmetic), pointer-before-error windows (NE), positive worker count (BS), paired-read discipline (PRD)",
         " Also decides that the visit of one command-line argument sets no flag that outlives it, that slice methods read element 0 only where the length allows, that a pointer returned with an error is not dereferenced before the error is read (50 sites), that --max-cpu below 1 is refused, and that mates are paired for every kind of input or refused."),
 "C04": ("; output handed on or closed before every successful return (W-8, typestate), FilterEmpty keeps a stream non-empty (PK-2), bounded Grow (GR)",
         " Also decides that the default-format writer frames and closes its output when no batch arrives, and that an all-empty stream still carries one batch to the header-writing writers."),
 "C05": ("; partial-key sorts and map-ordered record slices (ND c, d), KeepAlive across C calls (KA), tie-breaking of running bests extended to obistats/obikmer (ND-argmin)",
         " Also decides that a slice filled in map order is not sorted on a single field of its elements nor returned unsorted as records, that the Go wrappers of C structures outlive the C calls, and that Mode breaks ties."),
 "C06": ("; contradictory stores (DS), text of a category value (CTX), whole-class collection of statistics maps (DP-imp)",
         " Also decides that JSON integers are held as int, that the classifiers' text of a value sanitises strings as the writers do and does not print floats through fmt, and that the statistics maps of a class are collected over the whole class before the fold."),
 "C07": ("; annotations not refilled after Subsequence (AO), null-safe kind tests and entry-wise copy (RN), key parsing / case / single occurrence of pairing_mismatches (PMK, linear arithmetic)",
         " Also decides that an extracted record keeps its translated annotations, that a null attribute is copied, and that the keys and positions of pairing_mismatches survive two reverse complements and circular windows longer than the source."),
 "C09": ("; band width bounded by the lengths (LC-2, linear arithmetic), reflexive symbol comparison (LC-2, TB-2 oracle corrected)",
         " Also decides that the rows of the banded kernel are at most 8(lA+lB)+16 wide whatever the bound, and that a letter matches itself."),
 "C10": ("; KeepAlive across C calls (KA), re-alignment driven by the compiled pattern, end of span outside the loop, margin only with indels (RA), non-letters encoded as a letter in no IUPAC set (CP, clang)",
         " Also decides that an indel hit is re-aligned with the pattern and the notion of match that found it, for every pattern length, and that symbols that are not letters match nothing."),
 "C11": ("; circular insert length is a residue (PCW), fragments progress (FG), annotations not refilled (AO), non-letters (CP, clang)",
         " Also decides that on a circular template the length of a pair lies in 0..L-1 on every path, and that the fragmenting loop advances by at least 1."),
 "C13": ("; positive worker count (BS), guarded first element (E0), bounded band (LC-2)",
         " Also decides that --max-cpu below 1 is refused, that an empty input does not panic in IsPaired, and that -d larger than any distance is harmless."),
 "C15": ("; index bound above the length (IXB, linear arithmetic); obitag2's restricted searches and byte-equality shortcut (T2: three known findings)",
         " Also decides that the level at distance len(reference) is recorded; records, construct by construct, that obitag2 is a heuristic."),
 "C16": ("; JSON errors tested (JE), --cut window arithmetic (CUT, linear arithmetic), paired-read discipline and simultaneous renamings (PRD), split elements guarded (SX), per-argument flags (XL)",
         " Also decides that a record whose annotations cannot be written stops the command, that --cut=-k:-k is one base, that --paired-with is honoured for every input or refused, that obiannotate edits both mates, and that renamings do not depend on their spelling."),
 "C17": ("; epilogue of the flat-file and FASTA/FASTQ parsers (FE, FE-2), CSV detector not for binary data (MT), every Read…FromFile through Ropen (RO)",
         " Also decides that data ending inside a record — a truncated plain file, or a compressed file read as text because its magic number is damaged — are refused by every parser."),
 "C18": ("; output handed on or closed (W-8), stdout closed by every writer and not printed on afterwards (W-9, typestate over the reference graph), prints outside main (EO), JSON errors (JE)",
         " Also decides that every ToStdout writer closes the stream so that a close error is reported, that no main prints after that close, and that obifind and the template options test their prints."),
 "C19": ("; unsigned shift amounts (KM-5, linear arithmetic), k within the word at definition and call sites (KM-6), Query counts (KQ), Mode ties (ND-argmin)",
         " Also decides that no De Bruijn graph is built for k outside 1..32, that the k-mer mask is not computed for k = 0, that Query counts by one with the query excluded, and that Mode is deterministic."),
 "C20": ("; flow typing of carries (CF), unsigned shift amounts in NewKmerMap (KM-5)",
         " Also decides that the carry input of every bits.Add64/Sub64 is 0/1 or the carry out of a math/bits call."),
}
for _k, (_t, _l) in _R8.items():
    _a, _b, _c = CLAIMED[_k]
    CLAIMED[_k] = (_a + _t, _b + _l, _c)

# round 9 (third hunt): rules NW … XE
_R9 = {
 "C01": ("; links followed by the kernel (SL), both zstd magics (ZM), CR-tolerant recognisers (CRX, regexp/syntax)",
         " Also decides that a failure to resolve the text of a link ends the file expansion only for a directory, that a zstd stream starting with a skippable frame is recognised, and that every line feed of a recogniser pattern may follow a carriage return."),
 "C02": ("; boolean options by value (OV), sign of zero (FI), both sides of the JSON object (JH), column names shared by CSV writer and reader (CSVH), options read (DO), quality/sequence lengths (FQL, QW)",
         " Also decides that --solexa=false does not switch Solexa decoding on, that -0.0 stays a float, that the words before the annotation object stay in the definition, and that the CSV reader knows the scores column under the name the writer prints."),
 "C03": ("; nil workers (NW), breakOnError forwarded (BOE), finish() before the pipe is released (LF), temporary directory removed before Close (TD), error before Done (ED), file-list errors consumed (XE)",
         " Also decides that a nil edit worker copies the records, that a failing script record stops obiscript, and that a reference file that cannot be opened stops the command."),
 "C04": ("; one score per nucleotide at the FASTQ writer (FQL) and wherever nucleotides are appended (QW), OBI header free of line feeds and of %v-printed containers (OHW), non-negative Grow (GR)",
         " Also decides that an ill-formed FASTQ record is refused rather than written, and that the OBI title line cannot be broken by a value."),
 "C05": ("; GraphBuffer.Close waits (GB), StatsOn outside worker closures (SOL), error before Done (ED), no field address in the pools (PL)",
         " Also decides that the graph is complete when read, that no two workers build the statistics of one record, and that Recycle does not race with GetSlice."),
 "C06": ("; statistics keys and delete guards through the classifiers' normaliser (CTX-2), temporary directory (TD)",
         " Also decides that -m and -c name a value the same way for every Go type, and that un-annotated records are not filed under an attribute read through GetAttribute."),
 "C07": ("; scores follow nucleotides (QW), predicates agree on empty vectors (NQ), no field address in the pools and every vector field released (PL, AL-2 rewritten), FASTQ lengths (FQL)",
         " Also decides that Join and JoinPairedSequence keep one score per nucleotide or none, that a copy has the attributes of its source, and that Recycle hands no address of a live field to a pool."),
 "C13": ("; StatsOn outside worker closures (SOL)", ""),
 "C15": ("; unknown taxa never stored (TX), index computed over all references (T2-idx), containers in the OBI header (OHW)",
         " Also decides that no nil node enters a taxon set and that obitag's index slot is filled from the whole database."),
 "C16": ("; KEY=VALUE options cut at the first '=' (KV), minimum of one (MC), inverse of an empty selection (IV), paired mode in every selecting command (PM), na without annotation (NAD), options read (DO), nil workers (NW), breakOnError (BOE)",
         " Also decides that -S/-R/-a keep every occurrence and the whole value, that -c 1 and -l 1 are criteria, that -v alone keeps nothing, that obiannotate selects on the pair, and that each of the 88 options of these commands is read by reachable code."),
 "C17": ("; taxonomy tables read to a clean end of file (RE-8), commands waited for (CW), file-list errors (XE), error before Done (ED), both zstd magics (ZM)",
         " Also decides the general clause for the taxonomy dump and for inputs read from a command."),
 "C18": ("; --out decides between stdout and file (CO), print of obiscript tests its write and finish() precedes the release of the pipe (LF)",
         " Also decides that obicsv -o FILE writes FILE, so that -o /dev/full fails."),
 "C19": ("; GraphBuffer.Close waits (GB), StatsOn outside closures (SOL)", " Also decides that the read graph is complete before the De Bruijn graph is fed."),
}
for _k, (_t, _l) in _R9.items():
    _a, _b, _c = CLAIMED[_k]
    CLAIMED[_k] = (_a + _t, _b + _l, _c)

# round 10 (mutation wave 7): LC-3, D1W, SB(2), OE, RD, XZF, DCK, CF-2, PWL, CSP, C4W, CX, HP
_R10 = {
 "C01": ("; byte counts used before the error (RD)", " Also decides that the bytes a reader returns together with an error are counted."),
 "C03": ("; opening errors consumed (OE)", ""),
 "C05": ("; reference kinds in the generic copy (DCK)", ""),
 "C07": ("; windows never empty (SB, linear arithmetic with validators inlined), reference kinds in the generic copy (DCK)",
         " Also decides that a circular window going once around is not empty, and that typed maps are copied."),
 "C09": ("; the two halves of the kernel agree on the boundary (LC-3, evaluated), the longer window holds one symbol at every return 1 of D1Or0 (D1W, proved by linear arithmetic)",
         " Also decides the verdict 1 of the one-difference test as far as the lengths of the unmatched windows go."),
 "C10": ("; '#' follows classes in the complemented pattern (CX, clang), C stacks addressed after the search (CSP)", ""),
 "C11": ("; second-primer window reaches the last first match (PWL), C stacks (CSP)", ""),
 "C13": ("; LC-3, D1W", ""),
 "C15": ("; ambiguity window of the 4-mer counter equals the word (C4W)", " Also decides that a window whose first symbol is an ambiguity code is counted as ambiguous."),
 "C17": ("; opening errors consumed wherever a reader is called (OE), byte counts (RD), xz footer condition evaluated three-valued (XZF)",
         " Also decides that a file that cannot be opened among several is fatal, and that an xz stream without footer is a truncation whatever the other terms."),
 "C19": ("; improved nodes unmarked in the label-correcting search (HP)", " Also decides a necessary condition of the optimality of HaviestPath."),
 "C20": ("; carries that can both be set are summed (CF-2), quotient correction covers equality (QR)", " Also decides that the remainder returned without correction is below the divisor."),
}
_R10["C01"] = (_R10["C01"][0] + ", CR trimmed with LF at the chunk tail (CRT)", _R10["C01"][1])
_R10["C10"] = (_R10["C10"][0] + ", sibling agreement of the C scanners and pattern constructors (CS, clang)", _R10["C10"][1])
_R10["C11"] = (_R10["C11"][0] + ", CS", _R10["C11"][1])
_R10["C19"] = (_R10["C19"][0] + ", cycle search from every node (CY)", _R10["C19"][1])
for _k, (_t, _l) in _R10.items():
    _a, _b, _c = CLAIMED[_k]
    CLAIMED[_k] = (_a + _t, _b + _l, _c)

# round 11 (fourth hunt)
_R11 = {
 "C01": ("; GenBank keyword clauses against the grammar (GBG), folded fields (FLD)", " Also decides that ORIGIN is accepted after CONTIG, // after the features, and that folded SOURCE/OS lines are read whole."),
 "C02": ("; OBI parser resumes at the end of the match (OBS), conversion errors (PF), titles valid UTF-8 at read (IU), offset subtraction guarded (QS-3), no comment character in CSV (CSVC), identifiers without blank on title lines (TID)",
         " Also decides that no byte is skipped after a ';', that an out-of-range number stays text, that the first write is already the fixed point for invalid bytes, and that a score below the offset does not wrap."),
 "C03": ("; CSV records never taken for comments (CSVC), empty class guarded (E0 without exemption), map-ordered record loops (ND e)", ""),
 "C04": ("; JSON/CSV iterator ended after the file is written (WD-5), identifiers without blank (TID)", ""),
 "C05": ("; records stored while ranging over map-ordered slices, batches pushed in a map range, tables rebuilt under computed keys (ND e, g)", " Also decides that obijoin, obiconsensus and the reverse complement of mismatch keys do not depend on map order."),
 "C06": ("; identifiers without blank on title lines (TID, the former known findings FID repaired), keys of statistics maps and composite category values named as written (CTX-3)",
         " Also decides that the on-disk chunks can be read back for every identifier, and that two values printed alike are one value."),
 "C10": ("; no repeat for an empty sequence, u read as t (CP, clang)", ""),
 "C11": ("; no repeat for an empty sequence (CP)", ""),
 "C13": ("; annotations filed under colliding keys in a map range (ND f)", ""),
 "C15": ("; empty index rebuilt (IX0), ambiguous windows left out of the 4-mer index (A4)", ""),
 "C16": ("; previous-run attributes forgotten by the barcode extractors (PRV), parameters read (UP), -S in the order given (SO)",
         " Also decides that a second pass of obimultiplex routes on this run's annotations, that --only-forward reaches the pattern worker, and that -S expressions chain in command-line order."),
 "C18": ("; WD-5", ""),
 "C19": ("; consumers of Encode4mer skip ambiguous windows (A4), HaviestPath on weightless graphs (HW)", " Also decides that no window holding an ambiguity code is indexed, and that an acyclic graph always has a path."),
}
_R11["C05"] = (_R11["C05"][0] + ", goroutines do not assign what their creator reads (IT-6b)", _R11["C05"][1])
_R11["C16"] = (_R11["C16"][0] + ", discarded file written without criterion (SD)", _R11["C16"][1])
for _k, (_t, _l) in _R11.items():
    _a, _b, _c = CLAIMED[_k]
    CLAIMED[_k] = (_a + _t, _b + _l, _c)

_R12 = {
 "C02": ("; the clamped score is the one the offset is added to (QS clause)", ""),
 "C03": ("; a batch taken for a look is put back on every path (PK-3)", " Also decides that the first batch of obicsv --auto is not dropped when it names no column."),
 "C04": ("; writing goroutines close the destination before UnregisterPipe()/Done() (WD-6)", ""),
 "C05": ("; PK-3", ""),
 "C10": ("; initial states of the indel automaton closed under its deletion term (MI, clang)", " Also decides the shape of the initial condition of ManberIndel (level e+1 starts from (level e >> 1) | start bit), not the matcher."),
 "C18": ("; WD-6", " Also decides that a failed close of the JSON/CSV destination is known before main is released."),
}
for _k, (_t, _l) in _R12.items():
    _a, _b, _c = CLAIMED[_k]
    CLAIMED[_k] = (_a + _t, _b + _l, _c)

_R13 = {
 "C06": ("; no reviewed exception left in GS (the shared err of IUniqueSequence repaired)", ""),
 "C10": ("; adjacent modifiers refused by CheckPattern (CG, clang)", " Also decides that the table of refused pairs of CheckPattern holds the pairs the encoder and the complement cut differently."),
 "C11": ("; CG", ""),
 "C16": ("; presence test of multi-value options (HC), no unchecked assertion in the setters (TA), floats matched as written (FT)",
         " Also decides that --cut with one neutral bound is not ignored, that a -S value of any type does not panic SetAttribute, and that -a sees a float as the record writes it."),
 "C17": ("; a read error is fatal before the channel is closed (RE-9)", ""),
}
for _k, (_t, _l) in _R13.items():
    _a, _b, _c = CLAIMED[_k]
    CLAIMED[_k] = (_a + _t, _b + _l, _c)

_R14 = {
 "C03": ("; no reviewed exception left on IMergeSequenceBatch (IT-4 decides it)", ""),
 "C05": ("; no reviewed exception left in PV", ""),
 "C10": ("; u read as t by the Go re-alignment (UT); masks applied after the shift, obligatory positions treated alike by the initial states, the deletion and the insertion (MI 3, 4)", ""),
 "C11": ("; window bounded before the int32 conversion (I32), --max-length refused below 1 (RQ)", ""),
 "C15": ("; index levels not cut at the length of the reference (IXL)", " Also decides that the bound of the recorded levels does not depend on the length of the indexed sequence."),
 "C19": ("; ties of HaviestPath broken on the length of the walk (HW 4), crossing slice bounds tested (SLB)", ""),
}
for _k, (_t, _l) in _R14.items():
    _a, _b, _c = CLAIMED[_k]
    CLAIMED[_k] = (_a + _t, _b + _l, _c)

_R15 = {
 "C11": ("; the fragment overlap counts the two flanks (FG clause)", ""),
 "C15": ("; the cursor of the index look-up is per tied reference (CUR)", ""),
 "C19": ("; slices.Compact on a sorted slice (CMP)", ""),
}
for _k, (_t, _l) in _R15.items():
    _a, _b, _c = CLAIMED[_k]
    CLAIMED[_k] = (_a + _t, _b + _l, _c)

_R16 = {
 "C10": ("; re-alignment window of AllMatches (FR-hi); obligatory positions handed to the Go re-alignment (OBL)", ""),
}
for _k, (_t, _l) in _R16.items():
    _a, _b, _c = CLAIMED[_k]
    CLAIMED[_k] = (_a + _t, _b + _l, _c)

_R17 = {
 "C10": ("; comparisons of half-open spans (HO)", ""),
}
for _k, (_t, _l) in _R17.items():
    _a, _b, _c = CLAIMED[_k]
    CLAIMED[_k] = (_a + _t, _b + _l, _c)

_R18 = {
 "C10": ("; first row of the aligner against the gap cost of its recurrence (LPR)", ""),
}
for _k, (_t, _l) in _R18.items():
    _a, _b, _c = CLAIMED[_k]
    CLAIMED[_k] = (_a + _t, _b + _l, _c)
