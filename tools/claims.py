# Table read by gen_manifest.py.  CLAIMED: id -> (technique, level text, DESIGN.md ref)
CLAIMED = {
 "C16": ("AST/type lint: combinator results must be used (MU)",
         "Decides structural clauses of C16 on every function of the program: results of value-semantic combinators (ChainWorkers, And/Or/Not, iterator stages) are never discarded. Necessary conditions only.",
         "DESIGN.md §4 C16"),
}
NA = {
 "C08": "every clause is an arithmetic identity over DP cells and read contents; no clause is visible in the shape of the code (DESIGN.md §5)",
 "C12": "orientation, tag coordinates, spacer arithmetic and nearest-tag uniqueness quantify over reads and sample sheets; candidate structural clauses are either unbreakable by realistic edits or brittle proxies (DESIGN.md §5)",
 "C14": "LCA/lineage/clade/rank agreement is universally quantified over trees and node pairs and lives in loop arithmetic on paths (DESIGN.md §5)",
}
