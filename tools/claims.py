# Table read by gen_manifest.py.  CLAIMED: id -> (technique, level text, DESIGN.md ref)
IT = "typestate/dataflow over go/cfg + symbolic WaitGroup accounting on the iterator protocol (IT-1..6)"
CLAIMED = {
 "C01": (IT + "; chunk numbering pass-through",
         "Decides the structural clause of C01 that chunks keep their number through the parsers (exactly one push per chunk on every path), that every reader stream is closed exactly once after its last push and that order-erasing consumers read a sorted stream. Necessary conditions only; byte-level parsing is not decided.",
         "DESIGN.md §4 C01"),
 "C03": (IT + "; re-sequencer drain parity (W-1); combinator results used (MU)",
         "Decides on every iterator creation site of the program (47) the lifecycle, producer accounting, exactly-one-Done, gap-free 0,1,2,... numbering and sorted-before-renumber clauses of C03 on every control-flow path. Necessary conditions of 'exactly once, in order, terminates'; slicing arithmetic and deadlock freedom are not decided.",
         "DESIGN.md §4 C03"),
 "C04": ("re-sequencer shape comparison (W-1), iterator protocol typestate (IT), writer registration/wait typestate (WE-2/3)",
         "Decides that the in-order branch and the drain loop of every writer's re-sequencing buffer perform the same emission with a counter incremented once per emission, that writer front-ends follow the iterator protocol and that the process waits for registered writers. Well-formedness of formatted records is trusted to go-json/encoding/csv.",
         "DESIGN.md §4 C04"),
 "C06": (IT + " on the dereplication pipeline",
         "Decides lifecycle/numbering clauses of the obichunk/obiuniq streams (including the recursive producer registration). The accounting identity over a data set is not decided.",
         "DESIGN.md §4 C06"),
 "C16": ("AST/type lint: combinator results must be used (MU); iterator protocol on DivideOn/Distribute/PairTo (IT)",
         "Decides structural clauses of C16 on every function of the program: results of value-semantic combinators (ChainWorkers, And/Or/Not, iterator stages) are never discarded; the routing combinators number and close their outputs correctly. Necessary conditions only.",
         "DESIGN.md §4 C16"),
 "C18": ("error-disposition dataflow on output sinks (WE-1), must-pass-through typestate with interprocedural summaries (WE-2), writer registration typestate (WE-3), drain parity (W-1)",
         "Decides that every Write/Flush/Close on the output path has its error consumed (fatal, returned or merged into a returned error) on all writers and in Wfile, that every main waits for every writer it may have started, and that writer goroutines unregister after their last write. Does not decide that the OS reports the failure.",
         "DESIGN.md §4 C18"),
 "C17": ("three-valued evaluation of error comparisons (RE-1), read-error disposition dataflow (RE-2), clang-AST guard rule on the C kseq wrapper + Go caller (K)",
         "Decides which error values the input path treats as a normal end of input: io.ErrUnexpectedEOF is never benign, every read error on the stream is fatal/propagated or restricted to io.EOF, and the C reader consults zlib before reporting 'finished'. Does not decide that each decompressor detects every corruption.",
         "DESIGN.md §4 C17"),
}
NA = {
 "C08": "every clause is an arithmetic identity over DP cells and read contents; no clause is visible in the shape of the code (DESIGN.md §5)",
 "C12": "orientation, tag coordinates, spacer arithmetic and nearest-tag uniqueness quantify over reads and sample sheets; candidate structural clauses are either unbreakable by realistic edits or brittle proxies (DESIGN.md §5)",
 "C14": "LCA/lineage/clade/rank agreement is universally quantified over trees and node pairs and lives in loop arithmetic on paths (DESIGN.md §5)",
}
