#!/usr/bin/env python3
"""keep_refactors.py <wave-letter> <out-dir-prefix> — stores the behaviour-preserving refactorings written by independent
sub-agents (<out-dir-prefix><Cnn>/refactor<k>.diff + README.md) under /verif/refactors/<Cnn>-<letter><k>/ after checking
that each applies to /repo HEAD and builds there; prints what the checks say on each (any line is a false alarm)."""
import os, sys, subprocess, glob, json, re, shutil
V = os.path.dirname(os.path.dirname(os.path.abspath(__file__)))
letter, prefix = sys.argv[1], sys.argv[2]
env = dict(os.environ, GOFLAGS="-mod=mod", GOPROXY="off", GOSUMDB="off", GOTOOLCHAIN="local", GOWORK="off")
head = subprocess.run(["git", "-C", "/repo", "rev-parse", "--short", "HEAD"], capture_output=True, text=True).stdout.strip()
kept = alarms_n = 0
for d in sorted(glob.glob(prefix + "C*")):
    pid = os.path.basename(d)[len(os.path.basename(prefix)):]
    readme = open(d + "/README.md").read() if os.path.exists(d + "/README.md") else ""
    for diff in sorted(glob.glob(d + "/refactor*.diff")):
        mm = re.search(r"refactor(\d+)\.diff$", diff)
        if not mm:
            continue
        k = mm.group(1)
        rid = f"{pid}-{letter}{k}"
        wt = "/tmp/keepref-%d" % os.getpid()
        subprocess.run(["git", "-C", "/repo", "worktree", "add", "-q", wt, "HEAD"], check=True)
        try:
            r = subprocess.run(["git", "-C", wt, "apply", diff], capture_output=True, text=True)
            if r.returncode != 0:
                print(f"{rid:9s} DOES NOT APPLY at {head}: {r.stderr.strip()[:120]}")
                continue
            b = subprocess.run(["go", "build", "./pkg/...", "./cmd/obitools/..."], cwd=wt, capture_output=True, text=True, env=env)
            errs = [l for l in (b.stdout + b.stderr).splitlines() if re.match(r"^[a-z./_A-Z0-9]+\.go:\d+:\d+: ", l)]
            if b.returncode != 0 and errs:
                print(f"{rid:9s} DOES NOT BUILD: {errs[0][:150]}")
                continue
            out = subprocess.run([V + "/bin/obiverif", "all", "--repo", wt, "--no-evidence"], capture_output=True, text=True, env=env).stdout
            alarms = sorted(set(l for l in out.splitlines() if " rule " in l or l.startswith("UNDECIDED")))
            dst = f"{V}/refactors/{rid}"
            os.makedirs(dst, exist_ok=True)
            shutil.copy(diff, dst + "/patch.diff")
            # the README section of this refactoring
            sec = ""
            m = re.split(r"\n#+ ", readme)
            for part in m:
                if re.match(r"\s*(Refactoring\s*)?%s\b" % k, part, re.I) or re.search(r"refactor%s\.diff" % k, part[:200]):
                    sec = part.strip()[:1500]
                    break
            json.dump({"id": rid, "property": pid, "origin": "written by an independent sub-agent that saw only the property text and a scratch worktree of /repo (wave %s, /repo %s)" % (letter, head),
                       "what": sec or "see the agent's README (not kept)", "false_alarms_when_kept": alarms}, open(dst + "/meta.json", "w"), indent=1)
            kept += 1
            if alarms:
                alarms_n += 1
                print(f"{rid:9s} FALSE ALARM")
                for l in alarms:
                    print("      " + l[:260])
            else:
                print(f"{rid:9s} silent")
        finally:
            subprocess.run(["git", "-C", "/repo", "worktree", "remove", "--force", wt])
print(f"kept={kept} with-alarms={alarms_n}")
