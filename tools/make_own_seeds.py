#!/usr/bin/env python3
"""Builds /verif/seeds/own-<label>/ : small variants written by the author of the checker, one per rule
instance that no independent change exercises, so that every rule is shown to fire (the thorough tier
replays them with the others).  Each entry: (label, file, old text, new text).  Expectations are measured
by running the checks on a scratch worktree."""
import subprocess, os, json, re, sys
HERE = os.path.dirname(os.path.dirname(os.path.abspath(__file__)))
ENV = dict(os.environ, GOFLAGS="-mod=mod", GOPROXY="off", GOSUMDB="off", GOTOOLCHAIN="local", GOWORK="off")
VARIANTS = [
 ("rebatch-no-final-flush", "pkg/obiiter/batchiterator.go",
  '\t\tif len(buffer) > 0 {\n\t\t\tnewIter.Push(MakeBioSequenceBatch(source, order, buffer))\n\t\t\tlog.Debugf("Final Rebatch #%d pushd", order)\n\t\t}\n', ''),
 ("pairing-use-after-recycle", "pkg/obitools/obipairing/pairing.go",
  '\tif inplace {\n\t\tseqB.Recycle()\n\t}\n\n\treturn seqA\n', '\tif inplace {\n\t\tseqB.Recycle()\n\t}\n\tseqA.SetAttribute("seq_b_length", seqB.Len())\n\n\treturn seqA\n'),
 ("subchunk-no-reset", "pkg/obichunk/subchunks.go", '\t\t\t\tclassifier.Reset()\n', ''),
 ("revcomp-strict-loop", "pkg/obiseq/revcomp.go", 'for i, j := sequence.Len()-1, 0; i >= j; i-- {\n\n\t\t// ASCII', 'for i, j := sequence.Len()-1, 0; i > j; i-- {\n\n\t\t// ASCII'),
 ("dispatcher-done-before-drain", "pkg/obiformats/dispatcher.go", '\t\t\t\tout.Recycle()\n\t\t\t\tjobDone.Done()\n', '\t\t\t\tjobDone.Done()\n\t\t\t\tout.Recycle()\n'),
 ("chunkwriter-signal-before-close", "pkg/obiformats/seqfile_chunk_write.go", None, None),
 ("leftshift64-wrong-mask", "pkg/obifp/uint64.go", 'return u.w0<<n | (carryIn & ((1 << n) - 1)), u.w0 >> (64 - n)', 'return u.w0<<n | (carryIn & ^((1 << (64 - n)) - 1)), u.w0 >> (64 - n)'),
 ("merge-count-one-operand", "pkg/obiseq/merge.go", 'count := sequence.Count() + tomerge.Count()', 'count := sequence.Count() + 1'),
 ("wg-add-too-many", "pkg/obitools/obiclean/graph.go", '\trunning.Add(workers)\n\n\tfor i := 0; i < workers; i++ {\n\t\tgo ff()\n\t}\n\n\tgo func() {\n\t\tfor i := 0; i < nseq; i++ {\n\t\t\tlineChan <- i\n\t\t}\n\t\tclose(lineChan)\n\t}()\n\n\tnp := nseq * (nseq - 1) / 2\n\n\trunning.Wait()\n\n\treweightSequences(seqs)',
  '\trunning.Add(workers + 1)\n\n\tfor i := 0; i < workers; i++ {\n\t\tgo ff()\n\t}\n\n\tgo func() {\n\t\tfor i := 0; i < nseq; i++ {\n\t\t\tlineChan <- i\n\t\t}\n\t\tclose(lineChan)\n\t}()\n\n\tnp := nseq * (nseq - 1) / 2\n\n\trunning.Wait()\n\n\treweightSequences(seqs)'),
 ("default-qualities-written", "pkg/obiseq/biosequence.go", None, None),
]
def apply(wt, label, f, old, new):
    p = os.path.join(wt, f)
    s = open(p).read()
    if label == "json-closing-after-close":
        m = re.search(r'(\t\twriteBytes\(\[\]byte\("\\n\]\\n"\)\)\n)((?:.|\n)*?)(\t\t\terr := file\.Close\(\)\n(?:.|\n)*?\n\t\t\}\n)', s)
        if not m: return False
        s = s.replace(m.group(0), m.group(3) + m.group(2).replace(m.group(3), "") + m.group(1)) if False else s
        # simpler: move the closing bracket write after the close block
        i = s.find('writeBytes([]byte("\\n]\\n"))')
        if i < 0: return False
        line_start = s.rfind("\n", 0, i) + 1
        line_end = s.find("\n", i) + 1
        line = s[line_start:line_end]
        rest = s[:line_start] + s[line_end:]
        j = rest.find("obiiter.UnregisterPipe()", line_start)
        if j < 0: return False
        jl = rest.rfind("\n", 0, j) + 1
        s = rest[:jl] + line + rest[jl:]
    elif label == "chunkwriter-signal-before-close":
        a = '\t\tlog.Debugf("FIle have to be closed : %v", toBeClosed)\n'
        b = '\t\tclose(written)\n'
        if a not in s or b not in s: return False
        s = s.replace(b, "").replace(a, b + a)
    elif label == "default-qualities-written":
        a = 'func (s *BioSequence) Qualities() Quality {'
        if a not in s: return False
        # a caller that writes the shared vector: SetQualities-less clamp helper
        s += '\n// ClampQualities caps the qualities of the sequence.\nfunc (s *BioSequence) ClampQualities(max uint8) {\n\tq := s.Qualities()\n\tfor i := range q {\n\t\tif q[i] > max {\n\t\t\tq[i] = max\n\t\t}\n\t}\n}\n'
    else:
        if old not in s: return False
        s = s.replace(old, new, 1)
    open(p, "w").write(s)
    return True
only = sys.argv[1:]
for label, f, old, new in VARIANTS:
    if only and label not in only: continue
    name = "own-" + label
    d = os.path.join(HERE, "seeds", name)
    wt = "/tmp/ownwt-%d" % os.getpid()
    subprocess.run(["git", "-C", "/repo", "worktree", "add", "-q", wt, "HEAD"], check=True)
    try:
        if not apply(wt, label, f, old, new):
            print(name, "DOES NOT APPLY"); continue
        b = subprocess.run(["go", "build", "./pkg/..."], cwd=wt, capture_output=True, text=True, env=ENV)
        errs = [l for l in b.stderr.splitlines() if re.match(r"^[a-z./_]+\.go:\d+", l)]
        if errs:
            print(name, "DOES NOT COMPILE", errs[:2]); continue
        os.makedirs(d, exist_ok=True)
        patch = subprocess.run(["git", "-C", wt, "diff"], capture_output=True, text=True).stdout
        open(os.path.join(d, "patch.diff"), "w").write(patch)
        out = subprocess.run([os.path.join(HERE, "bin", "obiverif"), "all", "--repo", wt, "--no-evidence", "-v"], capture_output=True, text=True, env=ENV).stdout
        expect, hits = [], []
        for l in out.splitlines():
            m = re.match(r"^(\S+): rule (\S+): (.*?): ", l)
            if m: hits.append((m.group(2), m.group(3)))
            m2 = re.match(r"^VIOLATION property=(\S+) ", l)
            if m2 and hits:
                e = {"property": m2.group(1), "rule": hits[-1][0], "key": hits[-1][1]}
                if e not in expect: expect.append(e)
        meta = {"id": name, "origin": "variant written by the author of the checker to show that the rule fires (tools/make_own_seeds.py)", "property": expect[0]["property"] if expect else "", "expect": expect}
        json.dump(meta, open(os.path.join(d, "meta.json"), "w"), indent=1)
        print(name, len(expect), "expectations", sorted(set(e["rule"] for e in expect)))
    finally:
        subprocess.run(["git", "-C", "/repo", "worktree", "remove", "--force", wt])
