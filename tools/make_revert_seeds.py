#!/usr/bin/env python3
"""Builds /verif/seeds/<name>/ from the 'fix:' commits of /repo: the reverse of each fix is a realistic
seeded defect (the original bug). Expectations (which rule reports which construct, for which property)
are measured by running the checks on a scratch worktree with the fix reverted."""
import subprocess, os, json, re, sys
HERE = os.path.dirname(os.path.dirname(os.path.abspath(__file__)))
ENV = dict(os.environ, GOFLAGS="-mod=mod", GOPROXY="off", GOSUMDB="off", GOTOOLCHAIN="local", GOWORK="off")
log = subprocess.run(["git","-C","/repo","log","--format=%h %s","38c62bf..HEAD"],capture_output=True,text=True).stdout.splitlines()
fixes=[l.split(" ",1) for l in log if l.split(" ",1)[1].startswith("fix:")]
fixes.reverse()
for i,(h,subj) in enumerate(fixes,1):
    name="fix%02d-%s"%(i,h)
    d=os.path.join(HERE,"seeds",name)
    os.makedirs(d,exist_ok=True)
    patch=subprocess.run(["git","-C","/repo","diff",h,h+"^"],capture_output=True,text=True).stdout
    open(os.path.join(d,"patch.diff"),"w").write(patch)
    wt="/tmp/revwt-%s"%h
    subprocess.run(["git","-C","/repo","worktree","add","-q",wt,"HEAD"],check=True)
    try:
        r=subprocess.run(["git","apply",os.path.join(d,"patch.diff")],cwd=wt,capture_output=True,text=True)
        if r.returncode!=0:
            print(name,"revert does not apply on HEAD:",r.stderr.strip()[:120]); expect=[]; note="revert does not apply cleanly on HEAD (later fix touched the same lines)"
        else:
            out=subprocess.run([os.path.join(HERE,"bin","obiverif"),"all","--repo",wt,"--no-evidence","-v"],capture_output=True,text=True,env=ENV).stdout
            expect=[]
            # map violations to properties: lines "  [VIOLATION] RULE pos key: msg" appear under each property run; use VIOLATION property lines order
            cur=None
            hits=[]
            for l in out.splitlines():
                m=re.match(r"^(\S+): rule (\S+): (.*?): ",l)
                if m: hits.append((m.group(2),m.group(3)))
                m2=re.match(r"^VIOLATION property=(\S+) ",l)
                if m2 and hits:
                    e={"property":m2.group(1),"rule":hits[-1][0],"key":hits[-1][1]}
                    if e not in expect: expect.append(e)
            note=""
    finally:
        subprocess.run(["git","-C","/repo","worktree","remove","--force",wt])
    meta={"id":name,"origin":"reverse of /repo commit %s (%s): re-introduces the original defect"%(h,subj),"property":expect[0]["property"] if expect else "","expect":expect,"note":note}
    json.dump(meta,open(os.path.join(d,"meta.json"),"w"),indent=1)
    print(name,len(expect),"expectations",subj[:70])
