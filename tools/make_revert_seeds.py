#!/usr/bin/env python3
"""Builds /verif/seeds/<name>/ from the 'fix:' commits of /repo: the reverse of each fix is a realistic
seeded defect (the original bug). Expectations (which rule reports which construct, for which property)
are measured by running the checks on a scratch worktree with the fix reverted.

The commit the worktrees are cut from and the checker binary are frozen when the tool starts, so that
commits and rebuilds made while it runs do not leak into the expectations. Four reverts are measured at
a time. usage: make_revert_seeds.py [name-prefix ...]  (only the seeds whose name starts with a prefix)"""
import subprocess, os, json, re, sys, shutil, tempfile
from concurrent.futures import ThreadPoolExecutor
HERE = os.path.dirname(os.path.dirname(os.path.abspath(__file__)))
ENV = dict(os.environ, GOFLAGS="-mod=mod", GOPROXY="off", GOSUMDB="off", GOTOOLCHAIN="local", GOWORK="off")
HEAD = subprocess.run(["git","-C","/repo","rev-parse","HEAD"],capture_output=True,text=True).stdout.strip()
BIN = tempfile.mktemp(prefix="obiverif-frozen-")
shutil.copy(os.path.join(HERE,"bin","obiverif"), BIN)
log = subprocess.run(["git","-C","/repo","log","--format=%h %s","38c62bf.."+HEAD],capture_output=True,text=True).stdout.splitlines()
fixes=[l.split(" ",1) for l in log if l.split(" ",1)[1].startswith("fix:")]
fixes.reverse()
only=sys.argv[1:]

def one(args):
    i,h,subj=args
    name="fix%02d-%s"%(i,h)
    if only and not any(name.startswith(o) for o in only):
        return None
    d=os.path.join(HERE,"seeds",name)
    os.makedirs(d,exist_ok=True)
    patch=subprocess.run(["git","-C","/repo","diff",h,h+"^"],capture_output=True,text=True).stdout
    pfile=os.path.join(d,"patch.diff")
    previous=open(pfile).read() if os.path.exists(pfile) else None
    prevmeta=json.load(open(os.path.join(d,"meta.json"))) if os.path.exists(os.path.join(d,"meta.json")) else {}
    wt="/tmp/revwt-%s"%h
    subprocess.run(["git","-C","/repo","worktree","add","-q","--detach",wt,HEAD],check=True)
    rebased=""
    try:
        remade = previous is not None and previous!=patch and ("re-made" in prevmeta.get("note","") or "no longer applies" in prevmeta.get("note",""))
        if remade:
            # a patch re-made by hand is never replaced by the exact revert (which may apply and no longer compile)
            class _R: returncode=1
            r=_R()
        else:
            open(pfile,"w").write(patch)
            r=subprocess.run(["git","apply",pfile],cwd=wt,capture_output=True,text=True)
        if r.returncode!=0 and previous is not None and previous!=patch:
            # the exact revert no longer applies: the patch kept here was re-made by hand (sub-agent) on a later tree; it is re-measured, never overwritten
            open(pfile,"w").write(previous)
            r=subprocess.run(["git","apply",pfile],cwd=wt,capture_output=True,text=True)
            rebased=prevmeta.get("note","") or "re-made on a later tree (the exact revert no longer applies)"
            if r.returncode!=0:
                subprocess.run(["git","-C","/repo","worktree","remove","--force",wt])
                return "%s STALE: neither the exact revert nor the re-made patch applies on HEAD; left untouched"%name
        if r.returncode!=0:
            expect=[]; note="revert does not apply cleanly on HEAD (later fix touched the same lines)"
        else:
            out=subprocess.run([BIN,"all","--repo",wt,"--no-evidence","-v"],capture_output=True,text=True,env=ENV).stdout
            expect=[]
            hits=[]
            for l in out.splitlines():
                m=re.match(r"^(\S+): rule (\S+): (.*?): ",l)
                if m: hits.append((m.group(2),m.group(3)))
                m2=re.match(r"^VIOLATION property=(\S+) ",l)
                if m2 and hits:
                    e={"property":m2.group(1),"rule":hits[-1][0],"key":hits[-1][1]}
                    if e not in expect: expect.append(e)
            note=rebased
    finally:
        subprocess.run(["git","-C","/repo","worktree","remove","--force",wt])
    meta={"id":name,"origin":"reverse of /repo commit %s (%s): re-introduces the original defect"%(h,subj),"property":expect[0]["property"] if expect else "","expect":expect,"note":note}
    json.dump(meta,open(os.path.join(d,"meta.json"),"w"),indent=1)
    return "%s %d expectations %s %s"%(name,len(expect),subj[:70],("["+note[:40]+"]") if note else "")

with ThreadPoolExecutor(4) as ex:
    for r in ex.map(one,[(i,h,s) for i,(h,s) in enumerate(fixes,1)]):
        if r: print(r, flush=True)
os.unlink(BIN)
