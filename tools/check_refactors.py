#!/usr/bin/env python3
"""check_refactors.py [ids...] — applies every behaviour-preserving refactoring kept under
/verif/refactors/<id>/patch.diff to a scratch worktree of /repo HEAD and runs every check on it.
Any VIOLATION / UNDECIDED is a false alarm of the machinery (to be corrected in the checker)."""
import os, sys, subprocess, glob, json
V = os.path.dirname(os.path.dirname(os.path.abspath(__file__)))
ids = sys.argv[1:] or sorted(os.path.basename(d) for d in glob.glob(V + "/refactors/*") if os.path.isdir(d))
env = dict(os.environ, GOFLAGS="-mod=mod", GOPROXY="off", GOSUMDB="off", GOTOOLCHAIN="local", GOWORK="off")
bad = 0
for i in ids:
    wt = "/tmp/chkref-%d" % os.getpid()
    subprocess.run(["git", "-C", "/repo", "worktree", "add", "-q", wt, "HEAD"], check=True)
    try:
        r = subprocess.run(["git", "-C", wt, "apply", V + "/refactors/" + i + "/patch.diff"], capture_output=True, text=True)
        if r.returncode != 0:
            print(f"{i:8s} STALE (patch does not apply any more)")
            continue
        out = subprocess.run([V + "/bin/obiverif", "all", "--repo", wt, "--no-evidence"], capture_output=True, text=True, env=env).stdout
        alarms = [l for l in out.splitlines() if " rule " in l or l.startswith("UNDECIDED")]
        if alarms:
            bad += 1
            print(f"{i:8s} FALSE ALARM")
            for l in sorted(set(alarms)):
                print("      " + l[:300])
        else:
            print(f"{i:8s} silent")
    finally:
        subprocess.run(["git", "-C", "/repo", "worktree", "remove", "--force", wt])
print(f"refactorings={len(ids)} false-alarms={bad}")
sys.exit(1 if bad else 0)
