#!/bin/bash
# Runs the repository's pinned test-suite (guard off; no hooks exist) and checks
# that the 71 stable tests of /root/.vp/BASELINE.json pass.
REPO=${1:-/repo}
export GOFLAGS=-mod=mod GOPROXY=off GOSUMDB=off GOTOOLCHAIN=local GOWORK=off
cd "$REPO" || exit 2
# three runs, as the harness does: a test counts as passing when it passes in a run
# (pkg/obiutils TestSetString prints a map-backed set and fails now and then on the untouched tree)
for i in 1 2 3; do go test -json -vet=off -count=1 -timeout 25m ./... 2>/dev/null; done > /tmp/obiverif-baseline.$$.json
python3 - /tmp/obiverif-baseline.$$.json <<'PY'
import json,sys
res={}
for l in open(sys.argv[1]):
    try: e=json.loads(l)
    except: continue
    if e.get('Test') and e.get('Action') in('pass','fail'):
        k=e['Package']+'::'+e['Test']
        if res.get(k)!='pass': res[k]=e['Action']
base=json.load(open('/root/.vp/BASELINE.json'))['stable_pass']
bad=[t for t in base if res.get(t)!='pass']
print("baseline stable tests: %d, passing now: %d"%(len(base),len(base)-len(bad)))
for t in bad: print("NOT PASSING:",t,res.get(t))
sys.exit(1 if bad else 0)
PY
rc=$?
rm -f /tmp/obiverif-baseline.$$.json
exit $rc
