#!/usr/bin/env python3
"""Runs the checks of the broken property against every seeded change (scratch worktrees of /repo HEAD,
removed afterwards) and records in seeded/<id>/meta.json which rule+construct reports it."""
import json, os, subprocess, sys, glob, concurrent.futures, re
HERE = os.path.dirname(os.path.dirname(os.path.abspath(__file__)))
ENV = dict(os.environ, GOFLAGS="-mod=mod", GOPROXY="off", GOSUMDB="off", GOTOOLCHAIN="local", GOWORK="off")

def run(sid):
    d = os.path.join(HERE, "seeded", sid)
    meta = json.load(open(os.path.join(d, "meta.json")))
    wt = "/tmp/seedwt-%s-%d" % (sid, os.getpid())
    subprocess.run(["git", "-C", "/repo", "worktree", "add", "-q", wt, "HEAD"], check=True)
    try:
        r = subprocess.run(["git", "apply", os.path.join(d, "patch.diff")], cwd=wt, capture_output=True, text=True)
        if r.returncode != 0:
            return sid, meta, None, "patch does not apply: " + r.stderr.strip()[:200]
        out = subprocess.run([os.path.join(HERE, "bin", "obiverif"), "check", meta["property"], "--repo", wt, "--no-evidence"],
                             capture_output=True, text=True, env=ENV).stdout
        hits = []
        for l in out.splitlines():
            m = re.match(r"^(\S+): rule (\S+): (.*?): ", l)
            if m and not l.startswith("KNOWN"):
                hits.append({"rule": m.group(2), "key": m.group(3)})
        return sid, meta, hits, ""
    finally:
        subprocess.run(["git", "-C", "/repo", "worktree", "remove", "--force", wt])

ids = sorted(os.path.basename(p) for p in glob.glob(os.path.join(HERE, "seeded", "*")) if os.path.isdir(p))
if len(sys.argv) > 1:
    ids = [i for i in ids if i in sys.argv[1:]]
det = 0
with concurrent.futures.ThreadPoolExecutor(max_workers=6) as ex:
    for sid, meta, hits, err in ex.map(run, ids):
        if err:
            print("%-7s ERROR %s" % (sid, err)); continue
        uniq = []
        for h in hits:
            if h not in uniq: uniq.append(h)
        meta["expect"] = uniq
        meta["detected"] = bool(uniq)
        if uniq:
            det += 1
            meta["detected_by"] = "; ".join("%s %s" % (h["rule"], h["key"]) for h in uniq)
        elif not str(meta.get("detected_by", "")).startswith("MISSED"):
            meta["detected_by"] = "MISSED"
        json.dump(meta, open(os.path.join(HERE, "seeded", sid, "meta.json"), "w"), indent=1)
        print("%-7s %-4s %s" % (sid, meta["property"], "DETECTED " + meta["detected_by"][:150] if uniq else meta["detected_by"][:160]))
print("detected %d / %d" % (det, len(ids)))
