#!/usr/bin/env python3
"""keep_seeded.py <id> <property> <diff> <demo> <demo_pkg_dir> <run_regex> <needs> <what> <detected_by>
Stores an independently produced breaking change under /verif/seeded/<id>/ ."""
import sys, os, shutil, json
sid, prop, diff, demo, pkg, run, needs, what, det = sys.argv[1:10]
d = os.path.join(os.path.dirname(os.path.dirname(os.path.abspath(__file__))), "seeded", sid)
os.makedirs(d, exist_ok=True)
shutil.copy(diff, os.path.join(d, "patch.diff"))
shutil.copy(demo, os.path.join(d, "demo_test.go.txt"))
meta = {
 "id": sid, "property": prop, "what": what, "needs_to_manifest": needs,
 "origin": "written by an independent sub-agent that saw only the property text and a scratch worktree of /repo",
 "demonstration": {"file": "demo_test.go.txt", "copy_to": pkg + "/zz_demo_test.go", "run": "go test -vet=off -count=1 -run '%s' ./%s/" % (run, pkg),
                   "expected": "passes on the unchanged tree, fails with patch.diff applied"},
 "confirmed": "tools/eval_mutant.sh in a scratch worktree of /repo HEAD: demo passes unchanged, fails with the patch; go build ok; the 71 pinned tests still pass with the patch",
 "detected_by": det,
}
json.dump(meta, open(os.path.join(d, "meta.json"), "w"), indent=1)
print("kept", sid)
