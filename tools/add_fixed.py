#!/usr/bin/env python3
"""add_fixed.py <property> <rule> <key> <commit> <what> — appends a 'fixed' entry (which suppresses nothing) to known_findings.jsonl."""
import json,subprocess,sys,os
p,r,k,h,w=sys.argv[1:6]
subj=subprocess.run(["git","-C","/repo","log","--format=%h %s","-1",h],capture_output=True,text=True).stdout.strip()
with open(os.path.join(os.path.dirname(os.path.dirname(os.path.abspath(__file__))),"known_findings.jsonl"),"a") as f:
    f.write(json.dumps({"status":"fixed","property":p,"rule":r,"key":k,"commit":subj,"what":w})+"\n")
