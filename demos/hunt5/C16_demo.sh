#!/bin/bash
# Builds the binaries from the worktree and replays the three findings.
# usage: demo.sh [worktree]   (default /tmp/hunt5-C16)
W=${1:-/tmp/hunt5-C16}
B=/tmp/hunt-bin-C16
export GOFLAGS=-mod=mod GOPROXY=off GOSUMDB=off GOTOOLCHAIN=local GOWORK=off
mkdir -p $B
( cd $W && go build -o $B/ ./cmd/obitools/obigrep ./cmd/obitools/obiannotate ) 2>/dev/null
T=$(mktemp -d); cd $T

echo "=== finding 1: obigrep -a on a float attribute"
cat > fl.fasta <<'END'
>f1 {"score":1234567.5,"pval":0.00001}
acgt
>f2 {"score":12.5,"pval":0.5}
acgt
END
for p in 'score=^1234567\.5$' 'pval=^0\.00001$' 'score=^12\.5$' 'score=e\+06$' 'pval=^1e-05$'; do
  echo "## obigrep -a '$p' fl.fasta"; $B/obigrep -a "$p" fl.fasta 2>/dev/null | grep '^>'
done
echo "## obigrep -v -a 'pval=^0\.' fl.fasta   (expected: nothing, both p-values are written 0.…)"
$B/obigrep -v -a 'pval=^0\.' fl.fasta 2>/dev/null | grep '^>'

echo
echo "=== finding 2: obiannotate --cut with a bound equal to 0"
printf '>s1\nacgtacgtacgtacgtacgt\n' > a.fasta
for c in 1:10 0:10 5:0 =-5:0; do
  case $c in =*) o="--cut$c";; *) o="--cut $c";; esac
  echo "## obiannotate $o a.fasta"
  $B/obiannotate $o a.fasta 2>/dev/null
  echo "rc=$?"
done

echo
echo "=== finding 3: edits aimed at id / sequence crash the command"
printf '>s1 {"count":3}\nacgtacgt\n>s2 {"count":1}\nacgt\n' > b.fasta
for args in "-S id=sequence.Len()" "-S sequence=\"acgt\"" "-R id=count"; do
  echo "## obiannotate $args b.fasta"
  $B/obiannotate $args b.fasta 2>&1 | grep -v 'level=info' | head -4; echo "rc=${PIPESTATUS[0]}"
done
