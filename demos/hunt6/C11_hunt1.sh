#!/bin/bash
# Finding 1: --fragmented + --delta (without --only-complete-flanking) reports a
# record whose flank is cut at a FRAGMENT boundary although the template has the bases.
# usage: hunt1.sh  (binary built with: go build -o /tmp/hunt-bin-C11/ ./cmd/obitools/obipcr)
B=${B:-/tmp/hunt-bin-C11/obipcr}
cd "$(dirname "$0")"
python3 - <<'PY'
# -L 10, primers 6+6, -D 5 : overlap = 10+6+6+2*5 = 32, fragment length = max(10*100, 65) = 1000,
# step = 968 : the second fragment starts at 0-based position 968. The forward site is put there.
L=12000
s=['g']*L
def put(p,t):
    for i,c in enumerate(t): s[p+i]=c
put(968-5,"ccccc"); put(968,"acacac"); put(974,"tatata"); put(980,"ttcttc"); put(986,"aaaaa")
open("frag.fasta","w").write(">tpl\n"+"".join(s)+"\n")
PY
echo "--- whole template"
$B --forward ACACAC --reverse GAAGAA -L 10 -D 5 frag.fasta 2>/dev/null
echo "--- --fragmented"
$B --fragmented --forward ACACAC --reverse GAAGAA -L 10 -D 5 frag.fasta 2>/dev/null
