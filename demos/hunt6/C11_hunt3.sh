#!/bin/bash
# Finding 3: -L 0 : no bound at all without --fragmented, amplicons lost with it
B=${B:-/tmp/hunt-bin-C11/obipcr}
cd "$(dirname "$0")"
python3 -c "print('>a'); print('g'*50+'acacac'+'t'*60+'ttcttc'+'g'*50)" > l0b.fasta
echo "-L 0              : $($B --forward ACACAC --reverse GAAGAA -L 0 l0b.fasta 2>/dev/null | grep -c '^>') amplicon(s) (barcode of 60 bp)"
echo "-L 0 --fragmented : $($B --fragmented --forward ACACAC --reverse GAAGAA -L 0 l0b.fasta 2>/dev/null | grep -c '^>') amplicon(s)"
echo "-L 100            : $($B --forward ACACAC --reverse GAAGAA -L 100 l0b.fasta 2>/dev/null | grep -c '^>') amplicon(s)"
echo "-L 59             : $($B --forward ACACAC --reverse GAAGAA -L 59 l0b.fasta 2>/dev/null | grep -c '^>') amplicon(s)"
